SPECIFICATION Spec
CONSTANT WakeByEvent = TRUE
PROPERTY Termination
INVARIANT LostWakeupPossible
CHECK_DEADLOCK FALSE
