SPECIFICATION FairSpec
CONSTANTS Producers = {1, 2, 3}
          PerProducer = 3
INVARIANT MutexOK
INVARIANT AtMostOnce
INVARIANT PerSenderFIFO
INVARIANT Conservation
PROPERTY AllDelivered
CHECK_DEADLOCK FALSE
