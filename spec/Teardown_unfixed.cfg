SPECIFICATION Spec
CONSTANT WakeByEvent = FALSE
PROPERTY Termination
CHECK_DEADLOCK FALSE
