------------------------------ MODULE Teardown ------------------------------
(***************************************************************************)
(* C10 (concurrent half): BasicDelayedEventQueue's timer thread versus      *)
(* stop() (called by the destructor, by reset() via serialize(), ...).      *)
(*                                                                          *)
(*   run():  while (_isStarted) { event_base_loop(base, EVLOOP_ONCE); }      *)
(*   stop(): _isStarted = false; event_base_loopbreak(base); ...; join();   *)
(*                                                                          *)
(* libevent: event_base_loop() CLEARS a pending break request when it is    *)
(* entered and then blocks until an event is active or a break is           *)
(* requested.  A break requested between the thread's test of _isStarted    *)
(* and its entry into event_base_loop() is therefore lost.                  *)
(* An ACTIVATED event, in contrast, stays active until the loop has         *)
(* processed it.  Variant WakeByEvent = TRUE models a stop() that also      *)
(* activates the queue's dummy event.                                       *)
(***************************************************************************)
EXTENDS Integers, TLC

CONSTANT WakeByEvent

VARIABLES started,   \* _isStarted
          brk,       \* libevent's break request
          act,       \* an activated event is waiting to be processed
          tpc,       \* timer thread: "test" | "tested" | "inloop" | "exited"
          mpc        \* stopping thread: "run" | "breaking" | "joining" | "done"
vars == <<started, brk, act, tpc, mpc>>

Init == started = TRUE /\ brk = FALSE /\ act = FALSE /\ tpc = "test" /\ mpc = "run"

\* while (INSTANCE->_isStarted)
TTest == /\ tpc = "test"
         /\ tpc' = IF started THEN "tested" ELSE "exited"
         /\ UNCHANGED <<started, brk, act, mpc>>

\* entering event_base_loop(): the break request is cleared; an active event is processed at once
TEnter == /\ tpc = "tested"
          /\ brk' = FALSE
          /\ IF act THEN act' = FALSE /\ tpc' = "test" ELSE act' = act /\ tpc' = "inloop"
          /\ UNCHANGED <<started, mpc>>

\* blocked in the loop until a break is requested or an event becomes active
TWake == /\ tpc = "inloop" /\ (brk \/ act)
         /\ brk' = FALSE /\ act' = FALSE /\ tpc' = "test"
         /\ UNCHANGED <<started, mpc>>

MClear == /\ mpc = "run" /\ started' = FALSE /\ mpc' = "breaking"
          /\ UNCHANGED <<brk, act, tpc>>

MBreak == /\ mpc = "breaking" /\ brk' = TRUE
          /\ act' = (IF WakeByEvent THEN TRUE ELSE act)
          /\ mpc' = "joining" /\ UNCHANGED <<started, tpc>>

MJoin == /\ mpc = "joining" /\ tpc = "exited" /\ mpc' = "done"
         /\ UNCHANGED <<started, brk, act, tpc>>

Next == TTest \/ TEnter \/ TWake \/ MClear \/ MBreak \/ MJoin
Spec == Init /\ [][Next]_vars /\ WF_vars(TTest) /\ WF_vars(TEnter) /\ WF_vars(TWake)
             /\ WF_vars(MClear) /\ WF_vars(MBreak) /\ WF_vars(MJoin)

\* destruction returns
Termination == <>(mpc = "done")
\* the schedule that loses the wake-up (for replay in the real code): the stopper runs
\* between the timer thread's test and its entry into the loop
LostWakeupPossible == ~(tpc = "inloop" /\ mpc = "joining" /\ ~brk /\ ~act /\ ~started)
=============================================================================
