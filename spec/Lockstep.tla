------------------------------ MODULE Lockstep ------------------------------
(***************************************************************************)
(* C03 / C20: two recordings of the same cases (two engines, or the same    *)
(* engine in two process environments) must agree line by line on the       *)
(* result code, the observation atoms, the raw monitor callbacks and the    *)
(* configuration.  The specification has one action: consume one line from  *)
(* each trace.  A difference is reported as a VERDICT and the rest of that  *)
(* case skipped.  No oracle is involved.                                    *)
(*   TRACEA, TRACEB  ndjson files with identical case order                 *)
(***************************************************************************)
EXTENDS Integers, Sequences, FiniteSets, Json, IOUtils, TLC

\* loaded once by LInit into TLC registers (definitions are re-evaluated on every use)
A == TLCGet(1)
B == TLCGet(2)
Prop == IF "PROP" \in DOMAIN IOEnv THEN IOEnv.PROP ELSE "C03"

VARIABLES la, lb, skip, case, fin
lvars == <<la, lb, skip, case, fin>>

Report(v) == PrintT("VERDICT " \o ToJson(v))

LInit == TLCSet(1, ndJsonDeserialize(IOEnv.TRACEA)) /\ TLCSet(2, ndJsonDeserialize(IOEnv.TRACEB)) /\ la = 1 /\ lb = 1 /\ skip = FALSE /\ case = 0 /\ fin = FALSE

Verdict(why, a, b) ==
    [case |-> case, line |-> la, lineb |-> lb, property |-> Prop, why |-> why,
     expected |-> a, got |-> b, exec |-> "pair", chart |-> 0, action |-> "Lockstep", extra |-> <<>>]

\* both at a reset line: start of the next case
LReset ==
    /\ A[la].k = "reset" /\ B[lb].k = "reset"
    /\ (A[la].case # B[lb].case => Report(Verdict("case-order", A[la].case, B[lb].case)))
    /\ case' = A[la].case /\ skip' = FALSE
    /\ la' = la + 1 /\ lb' = lb + 1 /\ UNCHANGED fin

LBoth ==
    /\ ~skip
    /\ A[la].k # "reset" /\ B[lb].k # "reset"
    /\ LET a == A[la]
           b == B[lb]
           diff == IF a = b THEN "same"
                   ELSE IF a.k # b.k THEN "kind"
                   ELSE IF a.k = "call" THEN
                        IF a.op # b.op THEN "op"
                        ELSE IF a.ret # b.ret THEN "ret"
                        ELSE IF a.atoms # b.atoms THEN "atoms"
                        ELSE "cfg"
                   ELSE IF a.k = "raw" THEN
                        IF a.ret # b.ret THEN "ret" ELSE "raw"
                   ELSE IF a.k = "end" THEN
                        IF a.exit # b.exit THEN "exit" ELSE "data"
                   ELSE "other"
       IN  IF diff = "same" THEN skip' = FALSE
           ELSE /\ skip' = TRUE
                /\ Report(Verdict(diff, a, b))
    /\ UNCHANGED case
    /\ la' = la + 1 /\ lb' = lb + 1 /\ UNCHANGED fin

\* after a difference, or when one run of the case is shorter: advance each side
\* to its next reset line
LDrainA ==
    /\ A[la].k # "reset"
    /\ (IF skip \/ lb > Len(B) THEN TRUE ELSE B[lb].k = "reset")
    /\ (~skip => Report(Verdict("length", A[la], "<<end of case>>")))
    /\ skip' = TRUE
    /\ la' = la + 1 /\ UNCHANGED <<lb, case, fin>>

LDrainB ==
    /\ (IF la > Len(A) THEN TRUE ELSE A[la].k = "reset")
    /\ B[lb].k # "reset"
    /\ (~skip => Report(Verdict("length", "<<end of case>>", B[lb])))
    /\ skip' = TRUE
    /\ lb' = lb + 1 /\ UNCHANGED <<la, case, fin>>

\* acceptance: both traces were consumed
LFinish ==
    /\ la > Len(A) /\ lb > Len(B) /\ ~fin
    /\ PrintT("LOCKSTEP-DONE")
    /\ fin' = TRUE /\ UNCHANGED <<la, lb, skip, case>>

LNext ==
    \/ LFinish
    \/ la <= Len(A) /\ lb <= Len(B) /\ (LReset \/ LBoth)
    \/ la <= Len(A) /\ LDrainA
    \/ lb <= Len(B) /\ LDrainB

LockSpec == LInit /\ [][LNext]_lvars

=============================================================================
