SPECIFICATION Spec
CONSTANT ChildSteps = 2
INVARIANT DoneAtMostOnce
INVARIANT DoneOnlyIfOwnFinish
INVARIANT DoneIfUndisturbed
INVARIANT SilentAfterCancel
INVARIANT NothingLateReachesParent
PROPERTY StopReturns
CONSTRAINT Bound
CHECK_DEADLOCK FALSE
