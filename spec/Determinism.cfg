SPECIFICATION DSpec
INVARIANT FunctionalDependence
CHECK_DEADLOCK FALSE
POSTCONDITION Consumed
