------------------------------ MODULE ScxmlAlgo ------------------------------
(***************************************************************************)
(* The procedures of the W3C SCXML 1.0 Recommendation, Appendix D,          *)
(* transcribed as operators over a chart value c and a machine state M.     *)
(*                                                                          *)
(* M extends the execution environment of ScxmlContent by                   *)
(*   hist     : history state -> remembered set of states ({} = no value)   *)
(*   inited   : states whose late-bound <data> has been initialised         *)
(*   topfinal : a top-level <final> has been entered (running = false)      *)
(*   invoked  : states whose <invoke>s are running                          *)
(* The names of the operators are the names of the Recommendation.          *)
(*                                                                          *)
(* Variants: the places where the Recommendation is not a function          *)
(* (DESIGN.md 3.3) are selected by the constant set Variants.               *)
(*   "A1prose" : done.state.P for every <parallel> ancestor P all of whose  *)
(*               children are in a final state (3.4 prose), not only for    *)
(*               the grandparent of the entered <final> (Appendix D)        *)
(*   "A4doc"   : content of the selected transitions runs in document order *)
(*               of the transitions (3.13 prose) rather than in the order   *)
(*               of the atomic states that selected them (Appendix D)       *)
(*   "A2raw"   : a transition that targets the history of an ancestor of    *)
(*               its source: Appendix D computes the domain from the        *)
(*               EFFECTIVE targets (the remembered / default states), which *)
(*               may lie below a still active ancestor, but its entry set   *)
(*               contains every state between them and the history's parent *)
(*               -- the active ancestor's onentry would run again without   *)
(*               its onexit.  Variant: the domain is computed from the      *)
(*               history state itself, so those states are exited first.    *)
(*   "uscxml"  : NOT an ambiguity of the Recommendation -- uSCXML's own     *)
(*               transition selection (both engines and all generated code):*)
(*               ONE pass over the transitions in post-fix order; a         *)
(*               transition is taken if its source is active, it is not in  *)
(*               (static) conflict with one taken before, it matches and    *)
(*               its condition holds.  Differs from Appendix D in that an    *)
(*               ancestor's transition never joins a descendant's, and in   *)
(*               that a state whose first enabled transition is pre-empted  *)
(*               falls back to its next one (or its ancestors').  Used only *)
(*               to give a deviation its exact root cause.                  *)
(*   "static"  : NOT an ambiguity of the Recommendation -- the conflict     *)
(*               relation of uSCXML (see Conflicts); used only to give a    *)
(*               deviation its exact root cause (DESIGN.md 5, C04)          *)
(***************************************************************************)
EXTENDS ScxmlContent

CONSTANT Variants

Histories(c) == {s \in NS(c) : IsHistory(c, s)}

NoEvent   == [has |-> FALSE, name |-> <<>>]
OnEvent(n) == [has |-> TRUE, name |-> n]

Targets(c, t) == c.trans[t].tgt              \* sequence of state indices

(* getEffectiveTargetStates *)
RECURSIVE EffTargets(_, _, _)
EffTargets(c, hist, tgts) ==
    UNION { IF IsHistory(c, tgts[i])
            THEN IF hist[tgts[i]] # {} THEN hist[tgts[i]]
                 ELSE EffTargets(c, hist, Targets(c, PseudoTrans(c, tgts[i])))
            ELSE {tgts[i]} : i \in 1..Len(tgts) }

(* findLCCA: nearest proper ancestor of `head' that is a compound state or  *)
(* <scxml> and contains all of `rest'.  Children have larger indices than   *)
(* their parents, so "nearest" is "largest index".                          *)
FindLCCA(c, head, rest) ==
    LET cand == {a \in Ancestors(c, head) :
                    /\ (IsCompound(c, a) \/ a = Root)
                    /\ \A s \in rest : IsDescendant(c, s, a)}
    IN  IF cand = {} THEN Root ELSE Max(cand)

(* getTransitionDomain; 0 stands for null *)
TransitionDomain(c, hist, t) ==
    LET tr == c.trans[t]
        ts == IF "A2raw" \in Variants THEN {tr.tgt[i] : i \in 1..Len(tr.tgt)}
              ELSE EffTargets(c, hist, tr.tgt)
    IN  IF ts = {} THEN 0
        ELSE IF tr.internal /\ IsCompound(c, tr.src)
                /\ \A s \in ts : IsDescendant(c, s, tr.src)
             THEN tr.src
             ELSE FindLCCA(c, tr.src, ts)

(* computeExitSet, IRP #404: "If the transition does not contain a          *)
(* 'target', its exit set is empty"                                         *)
ExitSet1(c, M, t) ==
    IF Len(c.trans[t].tgt) = 0 THEN {}
    ELSE LET d == TransitionDomain(c, M.hist, t)
         IN  {s \in M.cfg : IsDescendant(c, s, d)}

ComputeExitSet(c, M, T) == UNION {ExitSet1(c, M, T[i]) : i \in 1..Len(T)}

(* conditionMatch and event matching of one transition *)
EventMatches(c, t, ev) ==
    IF ev.has THEN Len(c.trans[t].ev) > 0 /\ NameMatch(c.trans[t].ev, ev.name)
    ELSE Len(c.trans[t].ev) = 0

(* the inner loops of selectTransitions / selectEventlessTransitions.       *)
(* Conditions are evaluated in the order of the loops and may raise         *)
(* error.execution, hence M is threaded through.                            *)
(* Appendix D searches the ancestors once per atomic state, so the condition *)
(* of an ancestor's transition may be looked at several times during ONE     *)
(* selection.  Conditions have no side effects; how often a failing one is   *)
(* evaluated -- and hence how many identical error.execution events it       *)
(* raises -- is not prescribed (5.9.1 demands the error per evaluation).     *)
(* The specification raises the error once per transition and selection:     *)
(* M.condErr remembers the transitions whose condition already failed.       *)
CondOnce(M, t, cond) ==
    LET r == EvalB(cond, M.dm, M.cfg)
    IN  IF r.ok THEN [E |-> M, v |-> r.v]
        ELSE IF t \in M.condErr THEN [E |-> M, v |-> FALSE]
        ELSE [E |-> [Raise(M, ErrExec) EXCEPT !.condErr = @ \cup {t}], v |-> FALSE]

RECURSIVE FirstInState(_, _, _, _, _)
FirstInState(c, M, ev, ts, k) ==
    IF k > Len(ts) THEN [M |-> M, t |-> 0]
    ELSE IF EventMatches(c, ts[k], ev)
         THEN LET r == CondOnce(M, ts[k], c.trans[ts[k]].cond)
              IN  IF r.v THEN [M |-> r.E, t |-> ts[k]]
                  ELSE FirstInState(c, r.E, ev, ts, k + 1)
         ELSE FirstInState(c, M, ev, ts, k + 1)

RECURSIVE FirstEnabled(_, _, _, _, _)
FirstEnabled(c, M, ev, chain, j) ==
    IF j > Len(chain) THEN [M |-> M, t |-> 0]
    ELSE LET r == FirstInState(c, M, ev, TransOfSeq(c, chain[j]), 1)
         IN  IF r.t # 0 THEN r ELSE FirstEnabled(c, r.M, ev, chain, j + 1)

RECURSIVE SelectFrom(_, _, _, _, _, _)
SelectFrom(c, M, ev, atomics, i, enabled) ==
    IF i > Len(atomics) THEN [M |-> M, T |-> enabled]
    ELSE LET r == FirstEnabled(c, M, ev, SelfAndAncestorsSeq(c, atomics[i]), 1)
             e2 == IF r.t # 0 /\ ~Contains(enabled, r.t) THEN Append(enabled, r.t) ELSE enabled
         IN  SelectFrom(c, r.M, ev, atomics, i + 1, e2)

(* Two transitions conflict iff their exit sets intersect (Appendix D).        *)
(* Variant "static": additionally when their sources are equal or ancestor-   *)
(* related -- the conflict relation uSCXML's engines and transpilers use      *)
(* (FastMicroStep.cpp:697ff, ChartToC::prepare); it differs from Appendix D    *)
(* exactly when a targetless (or otherwise non-overlapping) transition of an  *)
(* ancestor is selected together with a descendant's transition.              *)
Conflicts(c, M, t1, t2) ==
    \/ ExitSet1(c, M, t1) \cap ExitSet1(c, M, t2) # {}
    \/ /\ "static" \in Variants
       /\ LET s1 == c.trans[t1].src
              s2 == c.trans[t2].src
          IN  s1 = s2 \/ IsDescendant(c, s1, s2) \/ IsDescendant(c, s2, s1)

(* removeConflictingTransitions *)
RECURSIVE RCTInner(_, _, _, _, _, _)
\* scan `filtered' for conflicts with t1; result [pre |-> preempted, rem |-> toRemove]
RCTInner(c, M, t1, filtered, j, rem) ==
    IF j > Len(filtered) THEN [pre |-> FALSE, rem |-> rem]
    ELSE LET t2 == filtered[j] IN
         IF Conflicts(c, M, t1, t2)
         THEN IF IsDescendant(c, c.trans[t1].src, c.trans[t2].src)
              THEN RCTInner(c, M, t1, filtered, j + 1, rem \cup {t2})
              ELSE [pre |-> TRUE, rem |-> rem]
         ELSE RCTInner(c, M, t1, filtered, j + 1, rem)

RECURSIVE RCTOuter(_, _, _, _, _)
RCTOuter(c, M, enabled, i, filtered) ==
    IF i > Len(enabled) THEN filtered
    ELSE LET r == RCTInner(c, M, enabled[i], filtered, 1, {})
         IN  IF r.pre THEN RCTOuter(c, M, enabled, i + 1, filtered)
             ELSE RCTOuter(c, M, enabled, i + 1,
                           Append(SelectSeq(filtered, LAMBDA t : t \notin r.rem), enabled[i]))

RemoveConflictingTransitions(c, M, enabled) == RCTOuter(c, M, enabled, 1, <<>>)

(* uSCXML's selection, see "uscxml" above.  The conflict relation is the static one of       *)
(* Predicates.cpp conflicts(): exit sets (all proper states inside the domain) intersect,   *)
(* or the sources are equal or ancestor-related.                                             *)
StaticDomainOf(c, t) ==
    LET tr == c.trans[t]
        ts == {tr.tgt[i] : i \in 1..Len(tr.tgt)}
    IN  IF ts = {} THEN 0
        ELSE IF tr.internal /\ IsCompound(c, tr.src) /\ \A s \in ts : IsDescendant(c, s, tr.src) THEN tr.src
        ELSE FindLCCA(c, tr.src, ts)
StaticExitOf(c, t) ==
    LET d == StaticDomainOf(c, t)
    IN  IF d = 0 THEN {} ELSE {s \in NS(c) : IsProper(c, s) /\ IsDescendant(c, s, d)}
StaticConflict(c, t1, t2) ==
    \/ StaticExitOf(c, t1) \cap StaticExitOf(c, t2) # {}
    \/ LET s1 == c.trans[t1].src
           s2 == c.trans[t2].src
       IN  s1 = s2 \/ IsDescendant(c, s1, s2) \/ IsDescendant(c, s2, s1)

RECURSIVE UscxmlPass(_, _, _, _, _)
UscxmlPass(c, M, ev, i, T) ==
    IF i > Len(c.ptn) THEN [M |-> M, T |-> T]
    ELSE LET t == c.ptn[i] IN
         IF c.trans[t].src \in M.cfg /\ (\A j \in 1..Len(T) : ~StaticConflict(c, T[j], t)) /\ EventMatches(c, t, ev)
         THEN LET r == CondOnce(M, t, c.trans[t].cond)
              IN  UscxmlPass(c, r.E, ev, i + 1, IF r.v THEN Append(T, t) ELSE T)
         ELSE UscxmlPass(c, M, ev, i + 1, T)

(* selectEventlessTransitions (ev = NoEvent) / selectTransitions(event) *)
SelectTransitions(c, M, ev) ==
    IF "uscxml" \in Variants
    THEN LET r == UscxmlPass(c, [M EXCEPT !.condErr = {}], ev, 1, <<>>)
         IN  [M |-> [r.M EXCEPT !.condErr = {}], T |-> SortSeq(r.T, <)]
    ELSE
    LET atomics == DocSeq({s \in M.cfg : IsAtomic(c, s)})
        r == SelectFrom(c, [M EXCEPT !.condErr = {}], ev, atomics, 1, <<>>)
        M1 == [r.M EXCEPT !.condErr = {}]
    IN  [M |-> M1, T |-> RemoveConflictingTransitions(c, M1, r.T)]

(* isInFinalState *)
RECURSIVE IsInFinalState(_, _, _)
IsInFinalState(c, cfg, s) ==
    IF IsCompound(c, s) THEN \E x \in Children(c, s) : IsFinal(c, x) /\ x \in cfg
    ELSE IF IsParallel(c, s) THEN \A x \in Children(c, s) : IsInFinalState(c, cfg, x)
    ELSE FALSE

(***************************************************************************)
(* computeEntrySet with addDescendantStatesToEnter/addAncestorStatesToEnter *)
(* acc = [enter, defEntry : sets of states; defHist : set of <<p, t>>]      *)
(***************************************************************************)
RECURSIVE AddDesc(_, _, _, _), AddAnc(_, _, _, _, _),
          AddDescSeq(_, _, _, _, _), AddAncSeq(_, _, _, _, _, _),
          AddParallelKids(_, _, _, _, _), AddAncChain(_, _, _, _, _)

AddDescSeq(c, hist, ss, i, acc) ==
    IF i > Len(ss) THEN acc ELSE AddDescSeq(c, hist, ss, i + 1, AddDesc(c, hist, ss[i], acc))

AddAncSeq(c, hist, ss, anc, i, acc) ==
    IF i > Len(ss) THEN acc ELSE AddAncSeq(c, hist, ss, anc, i + 1, AddAnc(c, hist, ss[i], anc, acc))

AddParallelKids(c, hist, kids, i, acc) ==
    IF i > Len(kids) THEN acc
    ELSE IF \E s \in acc.enter : IsDescendant(c, s, kids[i])
         THEN AddParallelKids(c, hist, kids, i + 1, acc)
         ELSE AddParallelKids(c, hist, kids, i + 1, AddDesc(c, hist, kids[i], acc))

AddDesc(c, hist, s, acc) ==
    IF IsHistory(c, s) THEN
        IF hist[s] # {} THEN
            LET hv == DocSeq(hist[s])
            IN  AddAncSeq(c, hist, hv, Parent(c, s), 1, AddDescSeq(c, hist, hv, 1, acc))
        ELSE
            LET t  == PseudoTrans(c, s)
                a1 == [acc EXCEPT !.defHist = @ \cup {<<Parent(c, s), t>>}]
            IN  AddAncSeq(c, hist, Targets(c, t), Parent(c, s), 1,
                          AddDescSeq(c, hist, Targets(c, t), 1, a1))
    ELSE
        LET a1 == [acc EXCEPT !.enter = @ \cup {s}] IN
        IF IsCompound(c, s) THEN
            LET a2 == [a1 EXCEPT !.defEntry = @ \cup {s}]
                init == c.states[s].init
            IN  AddAncSeq(c, hist, init, s, 1, AddDescSeq(c, hist, init, 1, a2))
        ELSE IF IsParallel(c, s) THEN
            AddParallelKids(c, hist, DocSeq(Children(c, s)), 1, a1)
        ELSE a1

\* ancestors nearest first
AddAncChain(c, hist, ancs, i, acc) ==
    IF i > Len(ancs) THEN acc
    ELSE LET a1 == [acc EXCEPT !.enter = @ \cup {ancs[i]}]
             a2 == IF IsParallel(c, ancs[i])
                   THEN AddParallelKids(c, hist, DocSeq(Children(c, ancs[i])), 1, a1)
                   ELSE a1
         IN  AddAncChain(c, hist, ancs, i + 1, a2)

AddAnc(c, hist, s, anc, acc) ==
    AddAncChain(c, hist, RevSeq(ProperAncestors(c, s, anc)), 1, acc)

EmptyAcc == [enter |-> {}, defEntry |-> {}, defHist |-> {}]

RECURSIVE ComputeEntrySet(_, _, _, _, _)
ComputeEntrySet(c, hist, T, i, acc) ==
    IF i > Len(T) THEN acc
    ELSE LET t  == T[i]
             a1 == AddDescSeq(c, hist, Targets(c, t), 1, acc)
             d  == TransitionDomain(c, hist, t)
             a2 == AddAncSeq(c, hist, DocSeq(EffTargets(c, hist, Targets(c, t))), d, 1, a1)
         IN  ComputeEntrySet(c, hist, T, i + 1, a2)

(***************************************************************************)
(* exitStates                                                               *)
(***************************************************************************)
HistoryValueAt(c, cfg, s, h) ==
    IF c.states[h].deep
    THEN {x \in cfg : IsAtomic(c, x) /\ IsDescendant(c, x, s)}
    ELSE {x \in cfg : Parent(c, x) = s}

RecordHistory(c, M, exits) ==
    [h \in Histories(c) |->
        IF Parent(c, h) \in exits THEN HistoryValueAt(c, M.cfg, Parent(c, h), h)
        ELSE M.hist[h]]

RECURSIVE ExitSeq(_, _, _, _)
ExitSeq(c, M, ss, i) ==
    IF i > Len(ss) THEN M
    ELSE LET s  == ss[i]
             M1 == [M EXCEPT !.atoms = Append(@, Atom("exit", <<c.states[s].id>>, 0))]
             M2 == ExecBlocks(c.states[s].onexit, 1, M1)
             M3 == [M2 EXCEPT !.cfg = @ \ {s}]
         IN  ExitSeq(c, M3, ss, i + 1)

ExitStates(c, M, T) ==
    LET exits == ComputeExitSet(c, M, T)
        M1 == [M EXCEPT !.hist = RecordHistory(c, M, exits)]
    IN  ExitSeq(c, M1, RevSeq(exits), 1)

(***************************************************************************)
(* executeTransitionContent                                                 *)
(***************************************************************************)
TakeOne(c, M, t) ==
    ExecBlock(c.trans[t].content,
              [M EXCEPT !.atoms = Append(@, Atom("take", <<c.trans[t].id>>, 0))])

RECURSIVE TakeSeq(_, _, _, _)
TakeSeq(c, M, T, i) ==
    IF i > Len(T) THEN M ELSE TakeSeq(c, TakeOne(c, M, T[i]), T, i + 1)

ContentOrder(T) == IF "A4doc" \in Variants THEN SortSeq(T, <) ELSE T

ExecuteTransitionContent(c, M, T) == TakeSeq(c, M, ContentOrder(T), 1)

(***************************************************************************)
(* enterStates                                                              *)
(***************************************************************************)
DoneEvent(c, s) == <<"done", "state", c.states[s].id>>

\* done.state for <parallel> ancestors, starting at the grandparent g of the
\* entered final state
RECURSIVE RaiseParallelDone(_, _, _)
RaiseParallelDone(c, M, g) ==
    IF g = 0 THEN M
    ELSE IF IsParallel(c, g) THEN
            IF \A x \in Children(c, g) : IsInFinalState(c, M.cfg, x)
            THEN LET M1 == Raise(M, DoneEvent(c, g))
                 IN  IF "A1prose" \in Variants
                     THEN RaiseParallelDone(c, M1, Parent(c, g))
                     ELSE M1
            ELSE M
         ELSE IF "A1prose" \in Variants /\ g # Root
              THEN RaiseParallelDone(c, M, Parent(c, g))
              ELSE M

EnterOne(c, M, s, acc) ==
    LET st == c.states[s]
        M1 == [M EXCEPT !.atoms = Append(@, Atom("enter", <<st.id>>, 0)),
                        !.cfg = @ \cup {s}]
        \* early binding: every <data> of the document when the root is entered;
        \* late binding: the state's own <data> on first entry
        M2 == IF c.binding = "late"
              THEN IF s \notin M1.inited
                   THEN [InitData(st.data, 1, M1) EXCEPT !.inited = @ \cup {s}]
                   ELSE M1
              ELSE IF s = Root THEN InitData(c.alldata, 1, M1) ELSE M1
        M3 == ExecBlocks(st.onentry, 1, M2)
        M4 == IF s \in acc.defEntry /\ st.initT # 0 THEN TakeOne(c, M3, st.initT) ELSE M3
        hts == DocSeq({p[2] : p \in {q \in acc.defHist : q[1] = s}})
        M5 == TakeSeq(c, M4, hts, 1)
    IN  IF IsFinal(c, s) THEN
            IF st.parent = Root THEN [M5 EXCEPT !.topfinal = TRUE]
            ELSE LET M6 == Raise(M5, DoneEvent(c, st.parent))
                 IN  RaiseParallelDone(c, M6, Parent(c, st.parent))
        ELSE M5

RECURSIVE EnterSeq(_, _, _, _, _)
EnterSeq(c, M, ss, i, acc) ==
    IF i > Len(ss) THEN M ELSE EnterSeq(c, EnterOne(c, M, ss[i], acc), ss, i + 1, acc)

EnterStates(c, M, T) ==
    LET acc == ComputeEntrySet(c, M.hist, T, 1, EmptyAcc)
    IN  EnterSeq(c, M, DocSeq(acc.enter), 1, acc)

(* entering the initial configuration: enterStates([doc.initial.transition]) *)
EnterInitialStates(c, M) ==
    LET acc == AddDesc(c, M.hist, Root, EmptyAcc)
    IN  EnterSeq(c, M, DocSeq(acc.enter), 1, acc)

(***************************************************************************)
(* microstep                                                                *)
(***************************************************************************)
Microstep(c, M, T) ==
    EnterStates(c, ExecuteTransitionContent(c, ExitStates(c, M, T), T), T)

(* exitInterpreter: onexit handlers of all active states in exit order *)
RECURSIVE FinalExitSeq(_, _, _, _)
FinalExitSeq(c, M, ss, i) ==
    IF i > Len(ss) THEN M
    ELSE FinalExitSeq(c, ExecBlocks(c.states[ss[i]].onexit, 1, M), ss, i + 1)

ExitInterpreter(c, M) == FinalExitSeq(c, M, RevSeq(M.cfg), 1)

=============================================================================
