SPECIFICATION ASpec
CHECK_DEADLOCK FALSE
POSTCONDITION Consumed
