--------------------------- MODULE MC_PromelaExpr ---------------------------
(***************************************************************************)
(* Bounded-exhaustive table for C17: all expressions up to the depth bound  *)
(* over a fixed environment, as (text, expected value | ERR).  Each initial *)
(* state is one AST; the invariant Emit prints its two renderings.          *)
(*   DEPTH = 1 : op(leaf, leaf), unary(leaf)                                *)
(*   DEPTH = 2 : additionally op(depth-1, leaf), op(leaf, depth-1),         *)
(*               unary(depth-1)                                             *)
(***************************************************************************)
EXTENDS PromelaExpr, Json, IOUtils, SequencesExt

Depth == IF "DEPTH" \in DOMAIN IOEnv THEN atoi(IOEnv.DEPTH) ELSE 1
\* keep 1 of every MODN depth-2 expressions (1 = all); the choice is by a structural hash
ModN == IF "MODN" \in DOMAIN IOEnv THEN atoi(IOEnv.MODN) ELSE 1
ModK == IF "MODK" \in DOMAIN IOEnv THEN atoi(IOEnv.MODK) ELSE 0

Env == [ints |-> [a |-> 3, b |-> 5], arrs |-> [arr |-> <<4, 0, 6>>]]

Lit(v) == [k |-> "lit", v |-> v]
Var(n) == [k |-> "var", n |-> n]
Arr(n, i) == [k |-> "arr", n |-> n, i |-> i]
Bin(o, a, b) == [k |-> "bin", o |-> o, a |-> a, b |-> b]
Un(o, a) == [k |-> "un", o |-> o, a |-> a]

BinOps == {"+", "-", "*", "/", "%", "<<", ">>", "<", "<=", ">", ">=", "==", "!=", "&&", "||"}
UnOps == {"!", "-"}

Leaves == {Lit(0), Lit(1), Lit(2), Lit(7), Var("a"), Var("b"),
           Arr("arr", Lit(0)), Arr("arr", Lit(1)), Arr("arr", Lit(5))}
D1 == {Bin(o, x, y) : o \in BinOps, x \in Leaves, y \in Leaves} \cup {Un(o, x) : o \in UnOps, x \in Leaves}
          \cup {Arr("arr", Bin("+", x, y)) : x \in {Lit(0), Lit(1), Var("a")}, y \in {Lit(0), Lit(1)}}
          \cup {Arr("arr", Bin("-", x, y)) : x \in {Lit(0), Lit(1)}, y \in {Lit(1), Lit(2)}}      \* negative indices
\* partition of D1 for sharding / sampling the depth-2 family: inner expressions number j with j % ModN = ModK
D1Seq == SetToSeq(D1)
D1Part == {D1Seq[j] : j \in {i \in 1..Len(D1Seq) : i % ModN = ModK}}
D2 == IF Depth <= 1 THEN {}
      ELSE {Bin(o, x, y) : o \in BinOps, x \in D1Part, y \in Leaves}
           \cup {Bin(o, x, y) : o \in BinOps, x \in Leaves, y \in D1Part}
           \cup {Un(o, x) : o \in UnOps, x \in D1Part}

Domain == IF Depth <= 1 THEN Leaves \cup D1 ELSE D2

VARIABLE e
Init == e \in Domain
Next == UNCHANGED e

Val(r) == IF r.ok THEN ToString(r.v) ELSE "ERR"

RECURSIVE OpsOf(_)
OpsOf(x) == CASE x.k \in {"lit", "var"} -> {}
              [] x.k = "arr" -> OpsOf(x.i) \cup {"[]"}
              [] x.k = "un" -> OpsOf(x.a) \cup {IF x.o = "-" THEN "neg" ELSE "!"}
              [] x.k = "bin" -> OpsOf(x.a) \cup OpsOf(x.b) \cup {x.o}

RECURSIVE DepthOf(_)
DepthOf(x) == CASE x.k \in {"lit", "var"} -> 0
                [] x.k = "arr" -> DepthOf(x.i)
                [] x.k = "un" -> 1 + DepthOf(x.a)
                [] x.k = "bin" -> 1 + (IF DepthOf(x.a) > DepthOf(x.b) THEN DepthOf(x.a) ELSE DepthOf(x.b))

Emit ==
    Defined(e, Env) =>
        LET r == Eval(e, Env)
        IN  PrintT("VEC " \o ToJson([min |-> Render(e, FALSE), full |-> Render(e, TRUE), v |-> Val(r),
                                     d |-> DepthOf(e), ops |-> SetToSeq(OpsOf(e)),
                                     \* does evaluation of a sub-expression fault?  (root-cause tags)
                                     rfault |-> IF e.k = "bin" /\ e.o \in {"&&", "||"} THEN ~Eval(e.b, Env).ok ELSE FALSE]))
=============================================================================
