---------------------------- MODULE Trace_InvokeAll ----------------------------
(***************************************************************************)
(* C11, session end: when the invoking session terminates -- cancel() or a  *)
(* top-level final state -- EVERY running invocation is cancelled (exactly  *)
(* once), and no invoked session does anything afterwards.  Recorded runs   *)
(* of a parent whose two parallel regions invoke one child each             *)
(* (harness/mt_invoke, scenario "all").                                     *)
(*   live   ids of invocations started (afterInvoking) and not uninvoked    *)
(*   done   the parent's afterCompletion was seen                           *)
(***************************************************************************)
EXTENDS Integers, Sequences, FiniteSets, Json, IOUtils, TLC

Log == TLCGet(1)
VARIABLES l, skip, run, live, started, done, scen, opening
tvars == <<l, skip, run, live, started, done, scen, opening>>

Report(v) == PrintT("VERDICT " \o ToJson(v))
Line == Log[l]
Verdict(why) == [case |-> run, chart |-> 0, exec |-> "mt_invoke", line |-> l, property |-> "C11", why |-> why,
                 action |-> IF "cb" \in DOMAIN Line THEN Line.cb ELSE "end", got |-> Line,
                 expected |-> [live |-> live, started |-> started, done |-> done], extra |-> <<>>]
Bad(why) == Report(Verdict(why)) /\ skip' = TRUE /\ UNCHANGED <<run, live, started, done, scen, opening>>
\* C13 on the same recordings: beforeInvoking is closed by afterInvoking before the session does anything else
BadBracket == Report([Verdict("beforeInvoking-without-afterInvoking") EXCEPT !.property = "C13"])
              /\ skip' = TRUE /\ UNCHANGED <<run, live, started, done, scen, opening>>

AInit == /\ TLCSet(1, ndJsonDeserialize(IOEnv.TRACE))
         /\ l = 1 /\ skip = TRUE /\ run = 0 /\ live = {} /\ started = {} /\ done = FALSE /\ scen = "one" /\ opening = ""

AReset == /\ Line.k = "reset"
          /\ run' = Line.run /\ skip' = (Line.scenario \notin {"all", "bad"}) /\ live' = {} /\ started' = {} /\ done' = FALSE
          /\ scen' = Line.scenario /\ opening' = ""
          /\ l' = l + 1

AParent ==
    /\ Line.k = "ev" /\ Line.r = "P" /\ ~skip
    /\ IF opening # "" /\ ~(Line.cb = "aIV" /\ Line.a = opening) THEN BadBracket
       ELSE
       CASE Line.cb = "bIV" ->
              opening' = Line.a /\ UNCHANGED <<skip, run, live, started, done, scen>>
         [] Line.cb = "aIV" ->
              IF Line.a \in live THEN Bad("invoke-started-twice")
              ELSE live' = (IF scen = "bad" THEN live ELSE live \cup {Line.a}) /\ started' = started \cup {Line.a}
                   /\ opening' = "" /\ UNCHANGED <<skip, run, done, scen>>
         [] Line.cb = "aUI" ->
              IF scen = "bad" THEN UNCHANGED <<skip, run, live, started, done, scen, opening>>     \* nothing runs
              ELSE IF Line.a \notin live THEN Bad("uninvoked-twice-or-never-invoked")
              ELSE live' = live \ {Line.a} /\ UNCHANGED <<skip, run, started, done, scen, opening>>
         [] Line.cb = "aCO" ->
              IF live # {} THEN Bad("session-ended-with-invocations-still-running")
              ELSE done' = TRUE /\ UNCHANGED <<skip, run, live, started, scen, opening>>
         [] OTHER -> UNCHANGED <<skip, run, live, started, done, scen, opening>>
    /\ l' = l + 1

AChild ==
    /\ Line.k = "ev" /\ Line.r = "C" /\ ~skip
    /\ IF done THEN Bad("invoked-session-active-after-the-invoking-session-ended")
       ELSE UNCHANGED <<skip, run, live, started, done, scen, opening>>
    /\ l' = l + 1

ADriver == /\ Line.k = "ev" /\ Line.r = "D" /\ ~skip
           /\ IF Line.cb = "finished" /\ Line.a # "yes" THEN Bad("parent-did-not-finish")
              ELSE UNCHANGED <<skip, run, live, started, done, scen, opening>>
           /\ l' = l + 1

AEnd == /\ Line.k = "end" /\ ~skip
        /\ (Line.exit # "ok" => Report(Verdict("run-ended-" \o Line.exit)))
        /\ (Line.exit = "ok" /\ scen = "all" /\ Cardinality(started) # 2 => Report(Verdict("not-both-invocations-started")))
        /\ (Line.exit = "ok" /\ ~done => Report(Verdict("no-afterCompletion")))
        /\ skip' = TRUE /\ UNCHANGED <<run, live, started, done, scen, opening>> /\ l' = l + 1

ASkip == /\ skip /\ Line.k \in {"ev", "end"}
         /\ UNCHANGED <<skip, run, live, started, done, scen, opening>> /\ l' = l + 1

ANext == l <= Len(Log) /\ (AReset \/ AParent \/ AChild \/ ADriver \/ AEnd \/ ASkip)
ASpec == AInit /\ [][ANext]_tvars
Consumed == TLCGet("stats").diameter = Len(Log) + 1
=============================================================================
