SPECIFICATION TraceSpec
CONSTANT Charts <- ChartsFromFile
CONSTANT Variants = {}
CHECK_DEADLOCK FALSE
POSTCONDITION Consumed
