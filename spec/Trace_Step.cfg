SPECIFICATION TraceSpec
CONSTANT Variants = {}
CHECK_DEADLOCK FALSE
POSTCONDITION Consumed
