SPECIFICATION DSpec
CHECK_DEADLOCK FALSE
POSTCONDITION Consumed
