--------------------------- MODULE MC_PromelaStore ---------------------------
(***************************************************************************)
(* C17, second half: "array elements and struct fields read back the value  *)
(* last written" and faulting assignments are reported, never executed.     *)
(* TLC enumerates short programs of assignments over a store with scalars   *)
(* and arrays -- some declared WITHOUT an initial value (Promela: zero) --   *)
(* and emits, per program, the outcome of every assignment and the value of *)
(* every location afterwards as PromelaExpr defines it.  The table is       *)
(* replayed through a live promela-datamodel interpreter (fn_replay store). *)
(*   <data id="a" type="int" expr="3"/>  <data id="w" type="int"/>          *)
(*   <data id="arr" type="int[3]">[4,0,6]</data>  <data id="z" type="int[4]"/> *)
(***************************************************************************)
EXTENDS PromelaExpr, Json, IOUtils

Env0 == [ints |-> [a |-> 3, w |-> 0], arrs |-> [arr |-> <<4, 0, 6>>, z |-> <<0, 0, 0, 0>>]]

Lit(v) == [k |-> "lit", v |-> v]
Var(n) == [k |-> "var", n |-> n]
Arr(n, i) == [k |-> "arr", n |-> n, i |-> i]
Bin(o, x, y) == [k |-> "bin", o |-> o, a |-> x, b |-> y]

\* assignable locations (some out of range)
Locs == {Var("a"), Var("w"),
         Arr("arr", Lit(0)), Arr("arr", Lit(2)), Arr("arr", Lit(3)), Arr("arr", Var("a")),
         Arr("z", Lit(0)), Arr("z", Lit(3)), Arr("z", Lit(4)), Arr("z", Var("a")), Arr("z", Var("w")),
         Arr("z", Bin("-", Var("w"), Lit(1)))}
\* assigned expressions (one reads what an earlier assignment wrote, one faults)
Vals == {Lit(7), Bin("-", Lit(0), Lit(2)), Bin("+", Var("a"), Lit(1)), Arr("z", Lit(3)), Var("w"),
         Bin("/", Lit(1), Var("w")), Bin("*", Arr("arr", Lit(2)), Lit(2))}

Asg == [loc : Locs, val : Vals]
Programs == {<<x>> : x \in Asg} \cup {<<x, y>> : x \in Asg, y \in Asg}

\* one assignment: [ok, env]
Exec(env, s) ==
    LET v == Eval(s.val, env)
    IN  IF ~v.ok THEN [ok |-> FALSE, env |-> env]
        ELSE IF s.loc.k = "var"
             THEN [ok |-> TRUE, env |-> [env EXCEPT !.ints[s.loc.n] = v.v]]
             ELSE LET i == Eval(s.loc.i, env)
                  IN  IF ~i.ok \/ i.v < 0 \/ i.v >= Len(env.arrs[s.loc.n]) THEN [ok |-> FALSE, env |-> env]
                      ELSE [ok |-> TRUE, env |-> [env EXCEPT !.arrs[s.loc.n][i.v + 1] = v.v]]

RECURSIVE Run(_, _, _, _)
Run(env, p, j, oks) ==
    IF j > Len(p) THEN [env |-> env, oks |-> oks]
    ELSE LET r == Exec(env, p[j]) IN Run(r.env, p, j + 1, Append(oks, r.ok))

Reads == <<Var("a"), Var("w"), Arr("arr", Lit(0)), Arr("arr", Lit(1)), Arr("arr", Lit(2)),
           Arr("z", Lit(0)), Arr("z", Lit(1)), Arr("z", Lit(2)), Arr("z", Lit(3))>>

VARIABLE p
Init == p \in Programs
Next == UNCHANGED p
Emit ==
    LET r == Run(Env0, p, 1, <<>>)
    IN  PrintT("PROG " \o ToJson([asg |-> [j \in 1..Len(p) |-> [loc |-> Render(p[j].loc, FALSE), val |-> Render(p[j].val, FALSE)]],
                                  oks |-> r.oks,
                                  reads |-> [j \in 1..Len(Reads) |-> Eval(Reads[j], r.env).v]]))
ReadTexts == PrintT("READS " \o ToJson([j \in 1..Len(Reads) |-> Render(Reads[j], FALSE)]))
ASSUME ReadTexts
=============================================================================
