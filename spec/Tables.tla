------------------------------- MODULE Tables -------------------------------
(***************************************************************************)
(* C05: the structural tables the transpiler back-ends embed, against the   *)
(* relations the Recommendation defines for the document.                   *)
(*                                                                          *)
(*   CHARTS  ndjson, line i = chart i                                       *)
(*   OBS     ndjson, one line per (chart, back-end, place): the tables as    *)
(*           read from the annotated document (place "annot") or from the   *)
(*           emitted text (place "emb": C initialisers, Promela init block),*)
(*           with uSCXML's indices already translated to the chart's own    *)
(*           (by id; transitions by source and position):                   *)
(*     [ci, chart, backend, place, order: <<state>>,                        *)
(*      states: <<[s, parent, children, anc, completion]>>,                 *)
(*      trans:  <<[t, post, source, target, exit, conflicts]>>]             *)
(*                                                                          *)
(* Expected (static) relations:                                             *)
(*   order       proper states keep their document order (pseudo states may *)
(*               be moved in front of their siblings)                       *)
(*   parent / children / ancestors     as in the document                   *)
(*   completion  parallel: its child states; compound: the initial attribute*)
(*               / the <initial> element / the first child state; history:  *)
(*               the states whose activity it records (shallow: sibling      *)
(*               states; deep: all descendants of the parent that no nested  *)
(*               history records)                                           *)
(*   post        position in post-fix order (children before parents, per   *)
(*               state its transitions in document order)                   *)
(*   target      the transition's target states                             *)
(*   exit        all proper states strictly inside the transition's domain  *)
(*   conflicts   Rec. 3.13 / Appendix D: two transitions conflict iff their *)
(*               exit sets intersect                                        *)
(***************************************************************************)
EXTENDS ScxmlAlgo, Json, IOUtils

Charts == TLCGet(1)
Obs    == TLCGet(2)
Load   == /\ TLCSet(1, TLCEval(LET raw == ndJsonDeserialize(IOEnv.CHARTS) IN [i \in DOMAIN raw |-> Aug(raw[i])]))
          /\ TLCSet(2, ndJsonDeserialize(IOEnv.OBS))

Report(v) == PrintT("VERDICT " \o ToJson(v))
SeqSet(s) == {s[i] : i \in 1..Len(s)}

(* ---- expected tables ---- *)
AllKids(c, s) == {x \in NS(c) : Parent(c, x) = s}
NonHist(c, S) == {x \in S : ~IsHistory(c, x)}

\* what a history element records when looked at on its own
FullRecord(c, h) ==
    LET p == Parent(c, h)
    IN  IF c.states[h].deep THEN NonHist(c, Descendants(c, p)) ELSE NonHist(c, AllKids(c, p))

HistoryCompletion(c, h) ==
    LET p == Parent(c, h)
        nested == {g \in NS(c) : IsHistory(c, g) /\ IsDescendant(c, Parent(c, g), p)}
    IN  IF c.states[h].deep
        THEN NonHist(c, Descendants(c, p)) \ UNION {FullRecord(c, g) : g \in nested}
        ELSE {x \in AllKids(c, p) : IsProper(c, x)}

Completion(c, s) ==
    IF IsHistory(c, s) THEN HistoryCompletion(c, s)
    ELSE IF IsParallel(c, s) THEN Children(c, s)
    ELSE IF IsCompound(c, s)
         THEN IF c.states[s].initT # 0 THEN {c.trans[c.states[s].initT].src}
              ELSE SeqSet(c.states[s].init)
    ELSE {}

AllKidsSeq(c, s) == DocSeq(AllKids(c, s))
RECURSIVE PostStates(_, _)
PostStates(c, s) ==
    LET kids == AllKidsSeq(c, s)
        F[i \in 0..Len(kids)] == IF i = 0 THEN <<>> ELSE F[i-1] \o PostStates(c, kids[i])
    IN  F[Len(kids)] \o <<s>>
TransOfAny(c, s) == DocSeq({t \in NT(c) : c.trans[t].src = s})

\* post-fix order is defined on the document as uSCXML arranges it: pseudo states first
PseudoFirst(c, order, s) ==
    SelectSeq(order, LAMBDA x : Parent(c, x) = s)

RECURSIVE PostStatesIn(_, _, _)
PostStatesIn(c, order, s) ==
    LET kids == PseudoFirst(c, order, s)
        F[i \in 0..Len(kids)] == IF i = 0 THEN <<>> ELSE F[i-1] \o PostStatesIn(c, order, kids[i])
    IN  F[Len(kids)] \o <<s>>

PostTransIn(c, order) ==
    LET ps == PostStatesIn(c, order, Root)
        F[i \in 0..Len(ps)] == IF i = 0 THEN <<>> ELSE F[i-1] \o TransOfAny(c, ps[i])
    IN  F[Len(ps)]

StaticDomain(c, t) ==
    LET tr == c.trans[t]
        ts == SeqSet(tr.tgt)
    IN  IF ts = {} THEN 0
        ELSE IF tr.internal /\ IsCompound(c, tr.src) /\ \A s \in ts : IsDescendant(c, s, tr.src)
             THEN tr.src
             ELSE FindLCCA(c, tr.src, ts)

StaticExit(c, t) ==
    LET d == StaticDomain(c, t)
    IN  IF d = 0 THEN {} ELSE {s \in NS(c) : IsProper(c, s) /\ IsDescendant(c, s, d)}

Normal(c) == {t \in NT(c) : c.trans[t].kind = "normal"}
RecConflict(c, t1, t2) == StaticExit(c, t1) \cap StaticExit(c, t2) # {}
SourceRelated(c, t1, t2) ==
    LET s1 == c.trans[t1].src
        s2 == c.trans[t2].src
    IN  s1 = s2 \/ IsDescendant(c, s1, s2) \/ IsDescendant(c, s2, s1)

(* ---- comparison of one observation ---- *)
V(o, why, what, exp, got) ==
    Report([property |-> "C05", chart |-> o.chart, backend |-> o.backend, place |-> o.place,
            why |-> why, what |-> what, expected |-> exp, got |-> got])

Ids(c, S) == {c.states[s].id \o (IF IsPseudo(c, s) THEN "#" \o ToString(s) ELSE "") : s \in S}
Sid(c, s) == IF s = 0 THEN "-" ELSE c.states[s].id \o (IF IsPseudo(c, s) THEN "#" \o ToString(s) ELSE "")
TIds(c, S) == {c.trans[t].id : t \in S}

CheckState(c, o, r) ==
    LET s == r.s IN
    /\ IF r.parent = Parent(c, s) THEN TRUE ELSE V(o, "parent", Sid(c, s), Sid(c, Parent(c, s)), Sid(c, r.parent))
    /\ IF SeqSet(r.children) = AllKids(c, s) THEN TRUE
       ELSE V(o, "children", Sid(c, s), Ids(c, AllKids(c, s)), Ids(c, SeqSet(r.children)))
    /\ IF SeqSet(r.anc) = Ancestors(c, s) THEN TRUE
       ELSE V(o, "ancestors", Sid(c, s), Ids(c, Ancestors(c, s)), Ids(c, SeqSet(r.anc)))
    \* whether a history's table mentions <initial> elements is immaterial (they are never active)
    /\ LET drop == IF IsHistory(c, s) THEN {x \in NS(c) : Kind(c, x) = "initial"} ELSE {}
       IN  IF SeqSet(r.completion) \ drop = Completion(c, s) \ drop THEN TRUE
           ELSE V(o, IF IsHistory(c, s) THEN "history-completion" ELSE "completion", Sid(c, s),
                  Ids(c, Completion(c, s)), Ids(c, SeqSet(r.completion)))

CheckTrans(c, o, pt, r) ==
    LET t == r.t IN
    /\ IF pt[r.post + 1] = t THEN TRUE ELSE V(o, "postfix-order", c.trans[t].id, c.trans[pt[r.post + 1]].id, r.post)
    /\ IF r.source = c.trans[t].src THEN TRUE ELSE V(o, "source", c.trans[t].id, Sid(c, c.trans[t].src), Sid(c, r.source))
    /\ IF SeqSet(r.target) = SeqSet(c.trans[t].tgt) THEN TRUE
       ELSE V(o, "targets", c.trans[t].id, Ids(c, SeqSet(c.trans[t].tgt)), Ids(c, SeqSet(r.target)))
    /\ IF t \notin Normal(c) THEN TRUE
       ELSE /\ IF SeqSet(r.exit) = StaticExit(c, t) THEN TRUE
               ELSE V(o, "exit-set", c.trans[t].id, Ids(c, StaticExit(c, t)), Ids(c, SeqSet(r.exit)))
            /\ LET got == (SeqSet(r.conflicts) \cap Normal(c)) \ {t}
                   exp == {u \in Normal(c) \ {t} : RecConflict(c, t, u)}
                   bySource == {u \in got \ exp : SourceRelated(c, t, u)}
               IN  /\ IF bySource = {} THEN TRUE
                      ELSE V(o, "conflict-by-source-relation", c.trans[t].id, TIds(c, exp), TIds(c, got))
                   /\ IF got \ bySource = exp THEN TRUE
                      ELSE V(o, "conflicts", c.trans[t].id, TIds(c, exp), TIds(c, got))

CheckObs(k) ==
    LET o == Obs[k]
        c == Charts[o.ci]
        proper == SelectSeq(o.order, LAMBDA s : IsProper(c, s))
        pt == TLCEval(PostTransIn(c, o.order))
        orderOK == SeqSet(o.order) = NS(c) /\ Len(o.order) = Len(c.states) /\ proper = DocSeq(SeqSet(proper))
    IN  IF o.error # "" THEN V(o, "unreadable", "", "", o.error)
        ELSE IF ~orderOK THEN V(o, "document-order", "", DocSeq({s \in NS(c) : IsProper(c, s)}), o.order)
        ELSE
        /\ IF {r.s : r \in SeqSet(o.states)} = NS(c) THEN TRUE ELSE V(o, "states-missing", "", Len(c.states), Len(o.states))
        /\ IF {r.t : r \in SeqSet(o.trans)} = NT(c) THEN TRUE ELSE V(o, "transitions-missing", "", Len(c.trans), Len(o.trans))
        /\ \A j \in 1..Len(o.states) : CheckState(c, o, o.states[j])
        /\ \A j \in 1..Len(o.trans) : CheckTrans(c, o, pt, o.trans[j])
        \* whatever relation a back-end embeds, "conflicts with" is symmetric (the Recommendation's is an
        \* intersection test); the one-pass selection of the emitted machines consults only the row of the
        \* transition already selected, so an asymmetric table changes which transitions run together
        /\ LET cf == [t \in {r.t : r \in SeqSet(o.trans)} |->
                        UNION {SeqSet(r.conflicts) : r \in {x \in SeqSet(o.trans) : x.t = t}}]
               asym == {t \in DOMAIN cf \cap Normal(c) :
                          \E u \in (cf[t] \cap Normal(c)) \ {t} : u \in DOMAIN cf /\ t \notin cf[u]}
           IN  IF asym = {} THEN TRUE
               ELSE LET t == CHOOSE x \in asym : TRUE
                    IN  V(o, "conflicts-asymmetric", c.trans[t].id, TIds(c, {u \in DOMAIN cf : t \in cf[u]}),
                          TIds(c, cf[t] \cap Normal(c)))

VARIABLE k
Init == Load /\ k = 1
Next == /\ k <= Len(Obs)
        /\ CheckObs(k)
        /\ k' = k + 1
Spec == Init /\ [][Next]_k
Done == TLCGet("stats").diameter = Len(Obs) + 1
=============================================================================
