----------------------------- MODULE Determinism -----------------------------
(***************************************************************************)
(* C20 (transformation half): transpiling the same document at the same URL *)
(* produces byte-identical output for every back-end, whatever the process  *)
(* instance, address-space layout, allocator state or cache files.          *)
(* The content of this specification is functional dependence:              *)
(*     out : (document, backend) -> digest                                  *)
(* is a partial function that every observation either extends or must      *)
(* agree with.  An observation is one trace line                            *)
(*     [doc, backend, env, digest]                                          *)
(* recorded from one run of the transformer in environment env.             *)
(***************************************************************************)
EXTENDS Integers, Sequences, FiniteSets, Json, IOUtils, TLC

Obs == TLCGet(1)

VARIABLES l, out, bad
dvars == <<l, out, bad>>

Report(v) == PrintT("VERDICT " \o ToJson(v))

DInit == /\ TLCSet(1, ndJsonDeserialize(IOEnv.TRACE))
         /\ l = 1 /\ out = <<>> /\ bad = {}

Key(o) == <<o.doc, o.backend>>

\* out is kept as a sequence of [key, digest, env] records (a function with tuple keys is not JSON)
Lookup(k) == {i \in 1..Len(out) : out[i].key = k}

Observe ==
    /\ l <= Len(Obs)
    /\ LET o == Obs[l]
           k == Key(o)
           known == Lookup(k)
       IN  IF known = {}
           THEN /\ out' = Append(out, [key |-> k, digest |-> o.digest, env |-> o.env])
                /\ bad' = bad
           ELSE LET first == out[CHOOSE i \in known : TRUE]
                IN  /\ out' = out
                    /\ IF first.digest = o.digest \/ k \in bad
                       THEN bad' = bad
                       ELSE /\ bad' = bad \cup {k}
                            /\ Report([case |-> l, chart |-> 0, exec |-> o.backend, line |-> l, property |-> "C20",
                                       why |-> "output-differs", action |-> "Observe",
                                       expected |-> [env |-> first.env, digest |-> first.digest],
                                       got |-> [env |-> o.env, digest |-> o.digest], extra |-> <<o.doc>>])
    /\ l' = l + 1

DSpec == DInit /\ [][Observe]_dvars

\* the property as an invariant of the accumulated table: no key with two digests
FunctionalDependence == \A i, j \in 1..Len(out) : out[i].key = out[j].key => out[i].digest = out[j].digest

Consumed == TLCGet("stats").diameter = Len(Obs) + 1
=============================================================================
