----------------------------- MODULE EventQueue -----------------------------
(***************************************************************************)
(* C08 (concurrent half): BasicEventQueue -- a FIFO guarded by a mutex and  *)
(* a condition variable -- with N producer threads (Interpreter::receive)   *)
(* and one consumer (the stepping thread, blocking dequeue).                *)
(* One action per critical section of BasicEventQueue.cpp:                  *)
(*   producer  PLock  PPush(+notify_all)  PUnlock                           *)
(*   consumer  CLock  CTestEmpty -> CWait | CPop   CWake   CUnlock          *)
(* `wait' atomically releases the mutex and blocks; a notify that arrives   *)
(* when nobody waits is lost; spurious wake-ups are allowed.                *)
(***************************************************************************)
EXTENDS Integers, Sequences, FiniteSets, TLC

CONSTANTS Producers, PerProducer      \* e.g. {1,2}, 2

VARIABLES q,          \* the queue: sequence of <<producer, k>>
          holder,     \* who holds the mutex: 0 nobody, -1 consumer, or a producer
          ppc,        \* producer -> "idle" | "locked" | "pushed" | "done"
          sent,       \* producer -> number of events enqueued so far
          cpc,        \* consumer: "idle" | "locked" | "waiting" | "woken" | "popped"
          delivered   \* sequence of events handed to the interpreter
vars == <<q, holder, ppc, sent, cpc, delivered>>

Total == Cardinality(Producers) * PerProducer

Init == /\ q = <<>> /\ holder = 0
        /\ ppc = [p \in Producers |-> "idle"] /\ sent = [p \in Producers |-> 0]
        /\ cpc = "idle" /\ delivered = <<>>

PLock(p) == /\ ppc[p] = "idle" /\ sent[p] < PerProducer /\ holder = 0
            /\ holder' = p /\ ppc' = [ppc EXCEPT ![p] = "locked"]
            /\ UNCHANGED <<q, sent, cpc, delivered>>

\* push_back + notify_all under the mutex: a waiting consumer becomes runnable
PPush(p) == /\ ppc[p] = "locked"
            /\ q' = Append(q, <<p, sent[p] + 1>>)
            /\ sent' = [sent EXCEPT ![p] = @ + 1]
            /\ cpc' = IF cpc = "waiting" THEN "woken" ELSE cpc
            /\ ppc' = [ppc EXCEPT ![p] = "pushed"]
            /\ UNCHANGED <<holder, delivered>>

PUnlock(p) == /\ ppc[p] = "pushed"
              /\ holder' = 0
              /\ ppc' = [ppc EXCEPT ![p] = IF sent[p] = PerProducer THEN "done" ELSE "idle"]
              /\ UNCHANGED <<q, sent, cpc, delivered>>

CLock == /\ cpc = "idle" /\ holder = 0 /\ Len(delivered) < Total
         /\ holder' = -1 /\ cpc' = "locked"
         /\ UNCHANGED <<q, ppc, sent, delivered>>

\* while (_queue.empty()) _cond.wait(_mutex): releases the mutex
CWait == /\ cpc = "locked" /\ q = <<>>
         /\ holder' = 0 /\ cpc' = "waiting"
         /\ UNCHANGED <<q, ppc, sent, delivered>>

\* a spurious wake-up
CSpurious == /\ cpc = "waiting" /\ cpc' = "woken" /\ UNCHANGED <<q, holder, ppc, sent, delivered>>

\* re-acquire the mutex after being woken, then re-test the loop condition
CWake == /\ cpc = "woken" /\ holder = 0
         /\ holder' = -1 /\ cpc' = "locked"
         /\ UNCHANGED <<q, ppc, sent, delivered>>

CPop == /\ cpc = "locked" /\ q # <<>>
        /\ delivered' = Append(delivered, Head(q))
        /\ q' = Tail(q) /\ cpc' = "popped"
        /\ UNCHANGED <<holder, ppc, sent>>

CUnlock == /\ cpc = "popped" /\ holder' = 0 /\ cpc' = "idle"
           /\ UNCHANGED <<q, ppc, sent, delivered>>

Next == \/ \E p \in Producers : PLock(p) \/ PPush(p) \/ PUnlock(p)
        \/ CLock \/ CWait \/ CSpurious \/ CWake \/ CPop \/ CUnlock

Spec == Init /\ [][Next]_vars
\* a thread that keeps trying to take the mutex eventually gets it (strong fairness on the lock
\* acquisitions: the mutex is only intermittently free); every other step is weakly fair
FairSpec == Spec /\ SF_vars(CLock) /\ SF_vars(CWake) /\ WF_vars(CPop) /\ WF_vars(CUnlock) /\ WF_vars(CWait)
                 /\ \A p \in Producers : SF_vars(PLock(p)) /\ WF_vars(PPush(p)) /\ WF_vars(PUnlock(p))

(* properties *)
Seq2Set(s) == {s[i] : i \in 1..Len(s)}
MutexOK == (holder = -1) => cpc \in {"locked", "popped"}
\* every event is delivered at most once, and only events that were enqueued
AtMostOnce == /\ Cardinality(Seq2Set(delivered)) = Len(delivered)
              /\ \A i \in 1..Len(delivered) : delivered[i][2] <= sent[delivered[i][1]]
\* events of the same sender are delivered in the order they were sent
PerSenderFIFO == \A i, j \in 1..Len(delivered) :
                    (i < j /\ delivered[i][1] = delivered[j][1]) => delivered[i][2] < delivered[j][2]
\* nothing is lost: enqueued = delivered + still queued
Conservation == \A p \in Producers :
                    sent[p] = Cardinality({i \in 1..Len(delivered) : delivered[i][1] = p})
                            + Cardinality({i \in 1..Len(q) : q[i][1] = p})
\* liveness: everything that is sent is eventually delivered (no lost wake-up)
AllDelivered == <>(Len(delivered) = Total)
=============================================================================
