---------------------------- MODULE Trace_Monitor ----------------------------
(***************************************************************************)
(* C13: the notifications delivered to an attached InterpreterMonitor are a *)
(* well-nested, complete account of execution.  A chart-independent         *)
(* specification of the callback protocol, checked on the RAW callback      *)
(* stream of every recorded step() (file <trace>.raw of interp_trace).      *)
(*                                                                          *)
(* The protocol, per call of step():                                        *)
(*   top level   : bPE (event), oSC (stable), bCO..aCO (completion),        *)
(*                 bIV..aIV / bUI..aUI (invocation), bMS..aMS (micro step)  *)
(*   micro step  : phases exits <= transitions <= entries                   *)
(*       exits        bXS(s) { content } aXS(s)                             *)
(*       transitions  bTT(t) { content } aTT(t)                             *)
(*       entries      bES(s) { content } aES(s), each optionally followed   *)
(*                    by the bTT..aTT of initial / history transitions      *)
(*   content     : bEC(e) { nested content } aEC(e)                         *)
(*   completion  : content (onexit handlers) and bUI..aUI only              *)
(* every before has its after (stack discipline, also on the error path).   *)
(*                                                                          *)
(* Completeness is cross-checked against the run's other channels, which do *)
(* not depend on the behavioural oracle:                                    *)
(*   - a <log> line received by the logger lies inside bEC(log)..aEC(log)   *)
(*   - a dequeue seen by the wrapping queue is followed by exactly one bPE  *)
(*     of that event before anything else                                   *)
(*   - a state's membership in getConfiguration() changes across a step()   *)
(*     exactly when it has one more bES than bXS (or vice versa), and no    *)
(*     state is entered or exited twice in one micro step                   *)
(*   - oSC is issued exactly by the calls that return MACROSTEPPED          *)
(***************************************************************************)
EXTENDS Integers, Sequences, FiniteSets, Json, IOUtils, TLC

RawLog == TLCGet(1)

VARIABLES l, prevcfg, skip, case
mvars == <<l, prevcfg, skip, case>>

Report(v) == PrintT("VERDICT " \o ToJson(v))
SeqToSet(s) == {s[i] : i \in 1..Len(s)}

Befores == {"bMS", "bXS", "bEC", "bUI", "bTT", "bES", "bIV", "bCO"}
AfterOf(b) == CASE b = "bMS" -> "aMS" [] b = "bXS" -> "aXS" [] b = "bEC" -> "aEC" [] b = "bUI" -> "aUI"
                [] b = "bTT" -> "aTT" [] b = "bES" -> "aES" [] b = "bIV" -> "aIV" [] b = "bCO" -> "aCO"
Afters == {"aMS", "aXS", "aEC", "aUI", "aTT", "aES", "aIV", "aCO"}
HarnessOnly == {"DQI", "DQE", "NQI", "NQE", "LOG"}

(* Scan one call's callback list with an explicit automaton state:          *)
(*   st = [stack, phase, pend, err]                                         *)
(*   stack : sequence of <<before, arg>> still open                         *)
(*   phase : 0 outside a micro step, 1 exits, 2 transitions, 3 entries      *)
(*   pend  : name of a dequeued event still waiting for its bPE ("" none)   *)
(*   err   : "" or the first protocol error                                 *)
Top(st) == IF Len(st.stack) = 0 THEN <<"", "">> ELSE st.stack[Len(st.stack)]
InMicro(st) == \E i \in 1..Len(st.stack) : st.stack[i][1] = "bMS"
Depth(st) == Len(st.stack)

Err(st, e) == IF st.err = "" THEN [st EXCEPT !.err = e] ELSE st

StepCb(st, cb) ==
    LET name == cb[1]
        arg  == cb[2]
        top  == Top(st)
    IN
    IF st.err # "" THEN st
    ELSE IF st.pend # "" /\ name # "bPE" THEN Err(st, "dequeue-without-bPE:" \o st.pend)
    ELSE IF name \in {"DQI", "DQE"} THEN
        IF Depth(st) # 0 THEN Err(st, "dequeue-inside-bracket") ELSE [st EXCEPT !.pend = arg]
    ELSE IF name \in {"NQI", "NQE"} THEN st
    ELSE IF name = "LOG" THEN
        IF top[1] = "bEC" /\ top[2] = "log" THEN st ELSE Err(st, "log-outside-bEC(log)")
    ELSE IF name = "bPE" THEN
        IF Depth(st) # 0 THEN Err(st, "bPE-inside-bracket")
        ELSE IF st.pend # arg THEN Err(st, "bPE-without-dequeue:" \o arg)
        ELSE [st EXCEPT !.pend = ""]
    ELSE IF name = "oSC" THEN
        IF Depth(st) # 0 THEN Err(st, "oSC-inside-bracket") ELSE [st EXCEPT !.stable = @ + 1]
    ELSE IF name \in Befores THEN
        LET ok ==
            CASE name = "bMS" -> Depth(st) = 0
              [] name = "bCO" -> Depth(st) = 0
              [] name \in {"bIV"} -> Depth(st) = 0
              [] name = "bUI" -> Depth(st) = 0 \/ top[1] = "bCO"
              [] name = "bXS" -> top[1] = "bMS" /\ st.phase <= 1
              [] name = "bTT" -> top[1] = "bMS" /\ (st.phase <= 2 \/ st.phase = 3)
              [] name = "bES" -> top[1] = "bMS"
              [] name = "bEC" -> top[1] \in {"bXS", "bTT", "bES", "bEC", "bCO"} \/ Depth(st) = 0
            ph == CASE name = "bMS" -> 1
                    [] name = "bXS" -> 1
                    [] name = "bTT" -> IF st.phase <= 2 THEN 2 ELSE 3
                    [] name = "bES" -> 3
                    [] OTHER -> st.phase
            dup == \/ name = "bXS" /\ arg \in st.exited
                   \/ name = "bES" /\ arg \in st.entered
        IN  IF ~ok THEN Err(st, "misplaced-" \o name \o "-in-" \o top[1])
            ELSE IF dup THEN Err(st, "twice-in-one-microstep:" \o name \o ":" \o arg)
            ELSE [st EXCEPT !.stack = Append(@, <<name, arg>>), !.phase = ph,
                            !.exited = IF name = "bXS" THEN @ \cup {arg} ELSE @,
                            !.entered = IF name = "bES" THEN @ \cup {arg} ELSE @,
                            !.allx = IF name = "bXS" THEN Append(@, arg) ELSE @,
                            !.alle = IF name = "bES" THEN Append(@, arg) ELSE @]
    ELSE IF name \in Afters THEN
        IF Depth(st) = 0 THEN Err(st, "after-without-before:" \o name)
        ELSE IF AfterOf(top[1]) # name \/ top[2] # arg
             THEN Err(st, "unbalanced:" \o name \o "(" \o arg \o ")-closes-" \o top[1] \o "(" \o top[2] \o ")")
             ELSE [st EXCEPT !.stack = SubSeq(@, 1, Len(@) - 1),
                             !.phase = IF name = "aMS" THEN 0 ELSE @,
                             !.exited = IF name = "aMS" THEN {} ELSE @,
                             !.entered = IF name = "aMS" THEN {} ELSE @]
    ELSE Err(st, "unknown-callback:" \o name)

RECURSIVE Scan(_, _, _)
Scan(st, cbs, i) == IF i > Len(cbs) THEN st ELSE Scan(StepCb(st, cbs[i]), cbs, i + 1)

Fresh == [stack |-> <<>>, phase |-> 0, pend |-> "", err |-> "", stable |-> 0,
          exited |-> {}, entered |-> {}, allx |-> <<>>, alle |-> <<>>]

Count(s, x) == Cardinality({i \in 1..Len(s) : s[i] = x})

Line == RawLog[l]

MInit ==
    /\ TLCSet(1, ndJsonDeserialize(IOEnv.TRACE))
    /\ l = 1 /\ prevcfg = {} /\ skip = TRUE /\ case = [case |-> 0, exec |-> "none", chart |-> 0]

MReset ==
    /\ Line.k = "reset"
    /\ case' = [case |-> Line.case, exec |-> Line.exec, chart |-> Line.chart]
    /\ prevcfg' = {} /\ skip' = FALSE /\ l' = l + 1

Verdict(why, exp, got) ==
    [case |-> case.case, chart |-> case.chart, exec |-> case.exec, line |-> l, property |-> "C13",
     why |-> why, action |-> "Monitor", expected |-> exp, got |-> got, extra |-> <<>>]

MCall ==
    /\ Line.k = "raw" /\ ~skip
    /\ LET st == Scan(Fresh, Line.c, 1)
           cfg == SeqToSet(Line.cfg)
           touched == SeqToSet(st.allx) \cup SeqToSet(st.alle)
           open == st.err = "" /\ Len(st.stack) # 0
           \* net effect of the reported entries/exits must explain the configuration change
           badDelta == st.err = "" /\ ~open /\ Line.op = "step" /\ Line.ret \notin {"INITIALIZED", "FINISHED"} /\
                       \E s \in touched \cup prevcfg \cup cfg :
                           (Count(st.alle, s) - Count(st.allx, s)) #
                           ((IF s \in cfg THEN 1 ELSE 0) - (IF s \in prevcfg THEN 1 ELSE 0))
           badStable == st.err = "" /\ Line.op = "step" /\
                        (st.stable # (IF Line.ret = "MACROSTEPPED" THEN 1 ELSE 0))
           bad == st.err # "" \/ open \/ badDelta \/ badStable
       IN  /\ (st.err # "" => Report(Verdict(st.err, "protocol", Line.c)))
           /\ (open => Report(Verdict("unclosed:" \o Top(st)[1], "balanced", Line.c)))
           /\ (badDelta => Report(Verdict("enter-exit-do-not-explain-configuration", <<prevcfg, cfg>>, Line.c)))
           /\ (badStable => Report(Verdict("stable-notice-count", Line.ret, st.stable)))
           /\ skip' = bad
           /\ prevcfg' = IF Line.op = "step" /\ Line.ret # "INITIALIZED" THEN cfg ELSE prevcfg
    /\ UNCHANGED case /\ l' = l + 1

MSkip ==
    /\ \/ Line.k = "end"
       \/ (skip /\ Line.k = "raw")
    /\ skip' = TRUE
    /\ UNCHANGED <<prevcfg, case>> /\ l' = l + 1

MNext == l <= Len(RawLog) /\ (MReset \/ MCall \/ MSkip)
MonitorSpec == MInit /\ [][MNext]_mvars
Consumed == TLCGet("stats").diameter = Len(RawLog) + 1
=============================================================================
