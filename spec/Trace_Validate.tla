---------------------------- MODULE Trace_Validate ----------------------------
(***************************************************************************)
(* C19: validate()'s verdict on every generated document, and the outcome   *)
(* of running and transpiling the documents it lets through, judged against *)
(* WellFormed.  One trace line per document (harness/validate_run), one raw *)
(* chart per line of RAW.                                                   *)
(*   completeness   WellFormed(raw) /\ expressions acceptable               *)
(*                      => no fatal issue /\ no syntax-error warning        *)
(*   soundness      ~WellFormed(raw) /\ no fatal issue                      *)
(*                      => run clean /\ every transformation clean          *)
(*                  (a dirty run of a WellFormed document is C01/C02/C07's  *)
(*                   business and is not reported again here)               *)
(*   termination    the validator itself ended normally                     *)
(***************************************************************************)
EXTENDS WellFormed, Json, IOUtils

Docs == TLCGet(1)
Raws == TLCGet(2)

VARIABLE l
Report(v) == PrintT("VERDICT " \o ToJson(v))

VInit == /\ TLCSet(1, ndJsonDeserialize(IOEnv.TRACE)) /\ TLCSet(2, ndJsonDeserialize(IOEnv.RAW)) /\ l = 1

Clean(x) == x \in {"ok", "skipped"}

VNext ==
    /\ l <= Len(Docs)
    /\ LET d == Docs[l]
           r == Raws[l]
           wf == WellFormed(r)
           nofatal == d.fatal = 0
           V(why, exp, got) == [case |-> l, chart |-> l, exec |-> "validator", line |-> l, property |-> "C19", why |-> why,
                                action |-> WhyNot(r), expected |-> exp, got |-> got, extra |-> <<d.name, r.tags>>]
       IN  /\ (d.validate # "ok" => Report(V("validator-did-not-terminate-normally", "ok", d.validate)))
           /\ (d.validate = "ok" /\ wf /\ ~nofatal => Report(V("valid-document-reported-fatal", 0, d.issues)))
           /\ (d.validate = "ok" /\ wf /\ nofatal /\ d.syntax > 0 => Report(V("valid-expressions-reported-as-syntax-errors", 0, d.issues)))
           /\ (d.validate = "ok" /\ ~wf /\ nofatal /\ ~Clean(d.run) => Report(V("invalid-document-passed-and-run-failed", "ok", d.run)))
           /\ (d.validate = "ok" /\ ~wf /\ nofatal /\ ~(Clean(d.c) /\ Clean(d.pml) /\ Clean(d.vhdl)) =>
                   Report(V("invalid-document-passed-and-transformation-failed", "ok", <<d.c, d.pml, d.vhdl>>)))
    /\ l' = l + 1

VSpec == VInit /\ [][VNext]_l
Consumed == TLCGet("stats").diameter = Len(Docs) + 1
=============================================================================
