---------------------------- MODULE Trace_Validate ----------------------------
(***************************************************************************)
(* C19: validate()'s verdict on every generated document, and the outcome   *)
(* of running and transpiling the documents it lets through, judged against *)
(* WellFormed.  One trace line per document (harness/validate_run), one raw *)
(* chart per line of RAW.                                                   *)
(*   completeness   WellFormed(raw) /\ expressions acceptable               *)
(*                      => no fatal issue /\ no syntax-error warning        *)
(*   soundness      ~WellFormed(raw) /\ no fatal issue                      *)
(*                      => run clean /\ every configuration of the run     *)
(*                         legal /\ every transformation clean             *)
(*                  (a dirty run of a WellFormed document is C01/C02/C07's  *)
(*                   business and is not reported again here)               *)
(*   termination    the validator itself ended normally                     *)
(***************************************************************************)
EXTENDS WellFormed, Json, IOUtils

Docs == TLCGet(1)
Raws == TLCGet(2)

VARIABLE l
Report(v) == PrintT("VERDICT " \o ToJson(v))

VInit == /\ TLCSet(1, ndJsonDeserialize(IOEnv.TRACE)) /\ TLCSet(2, ndJsonDeserialize(IOEnv.RAW)) /\ l = 1

Clean(x) == x \in {"ok", "skipped"}

\* legality (Rec. 3.11) of a configuration the run went through, given as state ids ("#root" = <scxml>);
\* only meaningful when ids are unique
CfgOf(r, ids) == {s \in NSr(r) : (s = 1 /\ "#root" \in Seq2Set(ids)) \/ (r.states[s].id # "" /\ s # 1 /\ r.states[s].id \in Seq2Set(ids))}
LegalCfgR(r, S) ==
    /\ 1 \in S
    /\ \A s \in S : IsProperR(r, s) /\ (s # 1 => r.states[s].parent \in S)
    /\ \A s \in S : (r.states[s].kind \in {"state", "scxml"} /\ KidsR(r, s) # {}) => Cardinality(KidsR(r, s) \cap S) = 1
    /\ \A s \in S : r.states[s].kind = "parallel" => KidsR(r, s) \subseteq S
IllegalCfgs(r, d) ==
    IF ~UniqueIds(r) \/ (\E s \in NSr(r) : s # 1 /\ IsProperR(r, s) /\ r.states[s].id = "") THEN {}
    ELSE {i \in 1..Len(d.cfgs) : ~LegalCfgR(r, CfgOf(r, d.cfgs[i]))}

VNext ==
    /\ l <= Len(Docs)
    /\ LET d == Docs[l]
           r == Raws[l]
           wf == WellFormed(r)
           nofatal == d.fatal = 0
           V(why, exp, got) == [case |-> l, chart |-> l, exec |-> "validator", line |-> l, property |-> "C19", why |-> why,
                                action |-> WhyNot(r), expected |-> exp, got |-> got, extra |-> <<d.name, r.tags>>]
       IN  /\ (d.validate # "ok" => Report(V("validator-did-not-terminate-normally", "ok", d.validate)))
           /\ (d.validate = "ok" /\ wf /\ ~nofatal => Report(V("valid-document-reported-fatal", 0, d.issues)))
           /\ (d.validate = "ok" /\ wf /\ nofatal /\ d.syntax > 0 => Report(V("valid-expressions-reported-as-syntax-errors", 0, d.issues)))
           /\ (d.validate = "ok" /\ ~wf /\ nofatal /\ ~Clean(d.run) => Report(V("invalid-document-passed-and-run-failed", "ok", d.run)))
           /\ (d.validate = "ok" /\ ~wf /\ nofatal /\ Clean(d.run) /\ IllegalCfgs(r, d) # {} =>
                   Report(V("invalid-document-passed-and-reached-an-illegal-configuration", "legal",
                            d.cfgs[CHOOSE i \in IllegalCfgs(r, d) : TRUE])))
           /\ (d.validate = "ok" /\ ~wf /\ nofatal /\ ~(Clean(d.c) /\ Clean(d.pml) /\ Clean(d.vhdl)) =>
                   Report(V("invalid-document-passed-and-transformation-failed", "ok", <<d.c, d.pml, d.vhdl>>)))
    /\ l' = l + 1

VSpec == VInit /\ [][VNext]_l
Consumed == TLCGet("stats").diameter = Len(Docs) + 1
=============================================================================
