SPECIFICATION VSpec
CHECK_DEADLOCK FALSE
POSTCONDITION Consumed
