SPECIFICATION MonitorSpec
CHECK_DEADLOCK FALSE
POSTCONDITION Consumed
