------------------------------- MODULE Invoke -------------------------------
(***************************************************************************)
(* C11: the thread protocol of USCXMLInvoker -- the parent's stepping       *)
(* thread (invoke at macrostep end, uninvoke = stop()) and the invoked      *)
(* session's thread (run(): step until finished, then report done.invoke).  *)
(*                                                                          *)
(*   run():   while (state != FINISHED) state = child.step();               *)
(*            if (_isActive) parent.enqueue(done.invoke.id); _isActive = false  *)
(*   stop():  _isStarted = false; _isActive = false; child.cancel(); join   *)
(*   ParentQueueImpl::enqueue(e): if (!_isActive) return;  (child -> parent) *)
(***************************************************************************)
EXTENDS Integers, Sequences, TLC

CONSTANT ChildSteps       \* how many steps the child needs to finish on its own (0 = at once, 99 = never)

VARIABLES active,      \* _isActive
          cpc,         \* child thread: "stepping" | "finished" | "checked" | "exited"
          csteps,      \* steps the child has done
          cancelReq,   \* cancel() was called on the child
          ownFinish,   \* the child reached its final state without a cancel request
          ppc,         \* parent: "invoked" | "stopping" | "cancelled" | "joining" | "stopped"
          parentQ,     \* what the parent's external queue received from the child
          lateSteps    \* child steps / sends after stop() returned
vars == <<active, cpc, csteps, cancelReq, ownFinish, ppc, parentQ, lateSteps>>

Init == /\ active = TRUE /\ cpc = "stepping" /\ csteps = 0 /\ cancelReq = FALSE /\ ownFinish = FALSE
        /\ ppc = "invoked" /\ parentQ = <<>> /\ lateSteps = 0

\* the child performs one step; it sends one event to the parent through the gate
CStep == /\ cpc = "stepping" /\ ~cancelReq /\ (ChildSteps = 99 \/ csteps < ChildSteps)
         /\ csteps' = csteps + 1
         /\ parentQ' = IF active THEN Append(parentQ, "c") ELSE parentQ
         /\ lateSteps' = lateSteps + (IF ppc = "stopped" THEN 1 ELSE 0)
         /\ UNCHANGED <<active, cpc, cancelReq, ownFinish, ppc>>

\* the child reaches its top-level final state on its own
CFinish == /\ cpc = "stepping" /\ ~cancelReq /\ ChildSteps # 99 /\ csteps = ChildSteps
           /\ cpc' = "finished" /\ ownFinish' = TRUE
           /\ UNCHANGED <<active, csteps, cancelReq, ppc, parentQ, lateSteps>>

\* the child sees the cancel request: exit handlers (may send: dropped by the gate), finished
CCancelled == /\ cpc = "stepping" /\ cancelReq
              /\ cpc' = "finished"
              /\ parentQ' = IF active THEN Append(parentQ, "late") ELSE parentQ
              /\ UNCHANGED <<active, csteps, cancelReq, ownFinish, ppc, lateSteps>>

\* if (_isActive) enqueue done.invoke
CCheck == /\ cpc = "finished"
          /\ parentQ' = IF active THEN Append(parentQ, "done") ELSE parentQ
          /\ cpc' = "checked" /\ UNCHANGED <<active, csteps, cancelReq, ownFinish, ppc, lateSteps>>

CExit == /\ cpc = "checked" /\ active' = FALSE /\ cpc' = "exited"
         /\ UNCHANGED <<csteps, cancelReq, ownFinish, ppc, parentQ, lateSteps>>

\* parent: stop() in three steps
PStop1 == /\ ppc = "invoked" /\ active' = FALSE /\ ppc' = "stopping"
          /\ UNCHANGED <<cpc, csteps, cancelReq, ownFinish, parentQ, lateSteps>>
PStop2 == /\ ppc = "stopping" /\ cancelReq' = TRUE /\ ppc' = "joining"
          /\ UNCHANGED <<active, cpc, csteps, ownFinish, parentQ, lateSteps>>
PJoin  == /\ ppc = "joining" /\ cpc = "exited" /\ ppc' = "stopped"
          /\ UNCHANGED <<active, cpc, csteps, cancelReq, ownFinish, parentQ, lateSteps>>

Next == CStep \/ CFinish \/ CCancelled \/ CCheck \/ CExit \/ PStop1 \/ PStop2 \/ PJoin
Spec == Init /\ [][Next]_vars /\ WF_vars(CStep) /\ WF_vars(CFinish) /\ WF_vars(CCancelled) /\ WF_vars(CCheck)
             /\ WF_vars(CExit) /\ WF_vars(PStop2) /\ WF_vars(PJoin)

Count(s, x) == Len(SelectSeq(s, LAMBDA y : y = x))
DoneAtMostOnce == Count(parentQ, "done") <= 1
DoneOnlyIfOwnFinish == Count(parentQ, "done") = 1 => ownFinish
\* a child that finished on its own and was never asked to stop reports it
DoneIfUndisturbed == (cpc = "exited" /\ ownFinish /\ ppc = "invoked") => Count(parentQ, "done") = 1
SilentAfterCancel == lateSteps = 0
NothingLateReachesParent == Count(parentQ, "late") = 0
\* stop() returns
StopReturns == (ppc = "stopping") ~> (ppc = "stopped")
Bound == Len(parentQ) <= 4 /\ csteps <= 3
=============================================================================
