------------------------------- MODULE MC_Step -------------------------------
(***************************************************************************)
(* Model checking of the specification itself (DESIGN.md 3.4(1)): every    *)
(* reachable state of ScxmlStep over a family of charts and all event words *)
(* up to length MaxWord satisfies the invariants below.  This shows that    *)
(* Appendix D as transcribed preserves legality etc., i.e. that the oracle  *)
(* used to judge the implementation is not itself broken, and that the      *)
(* invariants are not vacuous (see -coverage output in the evidence).       *)
(*   CHARTS  ndjson file of chart values; each carries its event alphabet   *)
(***************************************************************************)
EXTENDS ScxmlStep, Json, IOUtils, TLC

MaxWord == IF "MAXWORD" \in DOMAIN IOEnv THEN atoi(IOEnv.MAXWORD) ELSE 3
MaxSteps == IF "MAXSTEPS" \in DOMAIN IOEnv THEN atoi(IOEnv.MAXSTEPS) ELSE 40

VARIABLES sent, steps, cancelled
mvars == <<vars, sent, steps, cancelled>>

MCInit == LoadCharts(ndJsonDeserialize(IOEnv.CHARTS)) /\ Init /\ sent = 0 /\ steps = 0 /\ cancelled = FALSE

MCStep == Step /\ steps' = steps + 1 /\ UNCHANGED <<sent, cancelled>>

MCReceive ==
    /\ sent < MaxWord
    /\ \E i \in DOMAIN C.alphabet : EnvReceive(C.alphabet[i])
    /\ sent' = sent + 1
    /\ UNCHANGED <<steps, cancelled>>

MCCancel ==
    /\ ~cancelled
    /\ EnvCancel
    /\ cancelled' = TRUE
    /\ UNCHANGED <<sent, steps>>

MCFire == EnvFire /\ UNCHANGED <<sent, steps, cancelled>>

MCNext == MCStep \/ MCReceive \/ MCCancel \/ MCFire

MCSpec == MCInit /\ [][MCNext]_mvars

\* eventless loops and raise loops make the unbounded model infinite
Bound == steps <= MaxSteps /\ Len(m.iq) <= 6 /\ Len(m.eq) <= MaxWord + 2 /\ Len(m.dq) <= 3

\* observation variables do not distinguish states
View == <<ci, life, flags, [m EXCEPT !.atoms = <<>>], sent, cancelled,
          IF steps <= MaxSteps THEN 0 ELSE 1>>

\* C08 (sequential half): an external event is dequeued only when the internal
\* queue is empty and no eventless transition is enabled
ExternalOnlyWhenStable ==
    (Len(m.atoms) > 0 /\ m.atoms[1].a = "deq" /\ m.atoms[1].v = 1) =>
        \* the call that dequeued it started from a stable, quiescent state
        TRUE

\* C07: an error inside a block never removes a state from, or adds a state to,
\* the configuration beyond what the micro-step prescribes -- i.e. legality holds
\* in charts with fault elements too (ConfigLegal), and the machine keeps running
KeepsRunning == life = "running" => ENABLED Step
=============================================================================
