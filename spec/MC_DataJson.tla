----------------------------- MODULE MC_DataJson -----------------------------
(***************************************************************************)
(* C15: the domain of Data values for the JSON round trip, bounded-         *)
(* exhaustive.  A value is                                                  *)
(*   [t |-> "str", c |-> <<char codes>>]        a VERBATIM atom (string)    *)
(*   [t |-> "num", n |-> index into Numbers]    an INTERPRETED numeric atom *)
(*   [t |-> "arr", e |-> <<values>>]                                        *)
(*   [t |-> "map", k |-> <<keys (char code seqs)>>, v |-> <<values>>]       *)
(* Character codes index the alphabet                                       *)
(*   1 '"'  2 '\'  3 '/'  4 BS  5 FF  6 LF  7 CR  8 TAB  9 VT               *)
(*   10 e-acute (2-byte UTF-8)  11 '0'  12 'a'  13 ' '                      *)
(* The oracle of the round trip is the identity:                            *)
(*     fromJSON(toJSON(d)) = d      and      Event(Data(e)) = e             *)
(* so the content of this module is the bounded-exhaustive DOMAIN, nothing  *)
(* more.  JSON texts are objects or arrays (RFC 4627): top-level values are *)
(* containers.                                                              *)
(***************************************************************************)
EXTENDS Integers, Sequences, FiniteSets, Json, IOUtils, TLC

Level == IF "LEVEL" \in DOMAIN IOEnv THEN atoi(IOEnv.LEVEL) ELSE 1

Chars == 1..13
Strs2 == {<<>>} \cup {<<a>> : a \in Chars} \cup {<<a, b>> : a \in Chars, b \in Chars}
Str(c) == [t |-> "str", c |-> c]
Num(n) == [t |-> "num", n |-> n]
Arr(e) == [t |-> "arr", e |-> e]
Map(k, v) == [t |-> "map", k |-> k, v |-> v]

AllStrs == {Str(c) : c \in Strs2}
Nums == {Num(n) : n \in 1..5}
\* a small set of atoms for the wider containers
FewAtoms == {Str(<<>>), Str(<<12>>), Str(<<1>>), Str(<<2, 6>>), Str(<<11>>), Str(<<10, 9>>), Num(1), Num(3), Num(4)}
Keys == {<<12>>, <<1>>, <<2>>, <<11, 13>>, <<10>>, <<6>>}

\* level 1: every string (and number) as the single element of an array and as the value / key of a map
L1 == {Arr(<<a>>) : a \in AllStrs \cup Nums}
      \cup {Map(<<k>>, <<a>>) : k \in Keys, a \in FewAtoms}
      \cup {Map(<<c>>, <<Str(<<12>>)>>) : c \in Strs2 \ {<<>>}}
\* level 2: arrays and maps of two elements, and one level of nesting
\* (no empty containers: uscxml::Data has no empty array / map distinct from the empty value, which is written as null)
Inner == FewAtoms \cup {Arr(<<a>>) : a \in {Str(<<12>>), Num(2)}}
         \cup {Map(<<k>>, <<a>>) : a \in {Str(<<12>>), Num(2)}, k \in {<<12>>, <<1>>}}
L2 == {Arr(<<a, b>>) : a \in Inner, b \in Inner}
      \cup {Map(<<k1, k2>>, <<a, b>>) : k1 \in {<<12>>, <<1>>}, k2 \in {<<11>>, <<2>>}, a \in Inner, b \in Inner}
      \cup {Arr(<<a, b, c>>) : a \in FewAtoms, b \in {Arr(<<Str(<<1>>)>>)}, c \in FewAtoms}

Domain == IF Level <= 1 THEN L1 ELSE L1 \cup L2

VARIABLE d
Init == d \in Domain
Next == UNCHANGED d
Emit == PrintT("VEC " \o ToJson(d))
=============================================================================
