SPECIFICATION LockSpec
CHECK_DEADLOCK FALSE
