----------------------------- MODULE Trace_Queue -----------------------------
(***************************************************************************)
(* C08: traces recorded from real runs (harness/mt_queue: N producer        *)
(* threads calling Interpreter::receive, one stepping thread) validated     *)
(* against the abstract state of EventQueue.tla.  The hooks emit one event  *)
(* per critical section UNDER the queue's mutex with a global sequence      *)
(* number; the monitor's beforeProcessingEvent is recorded by the stepping  *)
(* thread.                                                                  *)
(*    enq(p,k)  enabled iff k = sent[p]+1             effect  append to q   *)
(*    deq(p,k)  enabled iff Head(q) = <<p,k>>         effect  q' = Tail(q)  *)
(*    bpe(p,k)  enabled iff it is the oldest dequeued event not yet seen    *)
(* A line that is not enabled is a violation (exactly once / in order).     *)
(***************************************************************************)
EXTENDS Integers, Sequences, FiniteSets, Json, IOUtils, TLC

Log == TLCGet(1)

VARIABLES l, q, sent, pending, skip, run
tvars == <<l, q, sent, pending, skip, run>>

Report(v) == PrintT("VERDICT " \o ToJson(v))
Line == Log[l]

QInit == /\ TLCSet(1, ndJsonDeserialize(IOEnv.TRACE))
         /\ l = 1 /\ q = <<>> /\ sent = <<>> /\ pending = <<>> /\ skip = TRUE /\ run = 0

QReset == /\ Line.k = "reset"
          /\ q' = <<>> /\ pending' = <<>> /\ skip' = FALSE /\ run' = Line.run
          /\ sent' = [p \in 1..Line.producers |-> 0]
          /\ l' = l + 1

Verdict(why) == [case |-> run, chart |-> 0, exec |-> "mt_queue", line |-> l, property |-> "C08", why |-> why,
                 action |-> IF "pt" \in DOMAIN Line THEN Line.pt ELSE "end", expected |-> [q |-> q, pending |-> pending], got |-> Line, extra |-> <<>>]

Bad(why) == /\ Report(Verdict(why)) /\ skip' = TRUE /\ UNCHANGED <<q, sent, pending, run>>

QEvent ==
    /\ Line.k = "ev" /\ ~skip
    /\ LET e == <<Line.p, Line.n>> IN
       CASE Line.pt = "enq" ->
              IF Line.p \in DOMAIN sent /\ Line.n = sent[Line.p] + 1
              THEN /\ q' = Append(q, e) /\ sent' = [sent EXCEPT ![Line.p] = @ + 1]
                   /\ UNCHANGED <<pending, skip, run>>
              ELSE Bad("enqueue-out-of-order-or-duplicate")
         [] Line.pt = "deq" ->
              IF q # <<>> /\ Head(q) = e
              THEN /\ q' = Tail(q) /\ pending' = Append(pending, e) /\ UNCHANGED <<sent, skip, run>>
              ELSE Bad("dequeue-not-head-of-queue")
         [] Line.pt = "bpe" ->
              IF pending # <<>> /\ Head(pending) = e
              THEN /\ pending' = Tail(pending) /\ UNCHANGED <<q, sent, skip, run>>
              ELSE Bad("processed-event-not-the-dequeued-one")
    /\ l' = l + 1

\* end of a run: everything sent was dequeued and processed exactly once
QEnd ==
    /\ Line.k = "end" /\ ~skip
    /\ LET complete == q = <<>> /\ pending = <<>> /\ \A p \in DOMAIN sent : sent[p] = Line.per
           clean == Line.exit = "ok"
       IN  /\ (~complete => Report([Verdict("events-lost-or-unprocessed") EXCEPT !.action = "end"]))
           /\ (~clean => Report([Verdict("run-ended-" \o Line.exit) EXCEPT !.action = "end"]))
    /\ skip' = TRUE /\ UNCHANGED <<q, sent, pending, run>>
    /\ l' = l + 1

QSkip == /\ skip /\ Line.k \in {"ev", "end"}
         /\ (Line.k = "end" /\ Line.exit # "ok" => Report([Verdict("run-ended-" \o Line.exit) EXCEPT !.action = "end"]))
         /\ UNCHANGED <<q, sent, pending, skip, run>> /\ l' = l + 1

QNext == l <= Len(Log) /\ (QReset \/ QEvent \/ QEnd \/ QSkip)
QSpec == QInit /\ [][QNext]_tvars
Consumed == TLCGet("stats").diameter = Len(Log) + 1
=============================================================================
