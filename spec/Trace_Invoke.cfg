SPECIFICATION ISpec
CHECK_DEADLOCK FALSE
POSTCONDITION Consumed
