------------------------------ MODULE ScxmlStep ------------------------------
(***************************************************************************)
(* The interpreter as a state machine: one action per outcome of the public *)
(* call Interpreter::step() (the linearisation point of this sequential     *)
(* library), plus the environment's calls receive() and cancel().           *)
(* Structured like InterpreterImpl::step / LargeMicroStep::step /           *)
(* FastMicroStep::step (which share this skeleton), with Appendix D         *)
(* (ScxmlAlgo) supplying what a micro-step does.                            *)
(*                                                                          *)
(* State:                                                                   *)
(*   ci     index into Charts                                               *)
(*   life   "instantiated" | "initialized" | "running" | "finished"         *)
(*   flags  subset of {"SPONT","STABLE","TOPFINAL","CANCELLED"}              *)
(*   m      machine state (ScxmlAlgo): cfg, hist, inited, dm, iq, eq,       *)
(*          atoms (ghost: observation atoms of the last call), topfinal     *)
(*   ret    result code of the last call (ghost)                            *)
(*   rootEntries  ghost counter (C02: the root is entered exactly once)     *)
(***************************************************************************)
EXTENDS ScxmlAlgo

(* The chart family: a sequence of (augmented) chart values.  TLC re-evaluates *)
(* operator definitions and CONSTANT substitutions on every use, which for a   *)
(* definition that parses a file is ruinous; the family is therefore loaded    *)
(* ONCE by the root module's initial predicate into TLC register 1.            *)
Charts == TLCGet(1)
LoadCharts(raw) == TLCSet(1, TLCEval([i \in DOMAIN raw |-> Aug(raw[i])]))

VARIABLES ci, life, flags, m, ret, rootEntries
vars == <<ci, life, flags, m, ret, rootEntries>>

C == Charts[ci]

VarSet(c) == {c.vars[i] : i \in 1..Len(c.vars)}

InitialM(c) ==
    [cfg |-> {}, hist |-> [h \in Histories(c) |-> {}], inited |-> {},
     dm |-> [n \in VarSet(c) |-> [def |-> FALSE, v |-> 0]],
     iq |-> <<>>, eq |-> <<>>, atoms |-> <<>>, ok |-> TRUE, topfinal |-> FALSE]

InitFor(i) ==
    /\ ci = i
    /\ life = "instantiated"
    /\ flags = {}
    /\ m = InitialM(Charts[i])
    /\ ret = "INSTANTIATED"
    /\ rootEntries = 0

Init == \E i \in DOMAIN Charts : InitFor(i)

M0 == [m EXCEPT !.atoms = <<>>]        \* every call starts with no atoms

(***************************************************************************)
(* Outcomes of step().  Each is a guard G_x and an effect E_x yielding      *)
(* [life, flags, m, ret].  The guards are mutually exclusive and complete,  *)
(* in the order in which step() tests them.                                 *)
(***************************************************************************)
Result(l, f, mm, r) == [life |-> l, flags |-> f, m |-> mm, ret |-> r]

AfterMicro(f, mm) ==   \* flags after a micro-step was taken
    ((f \ {"STABLE"}) \cup {"SPONT"}) \cup (IF mm.topfinal THEN {"TOPFINAL"} ELSE {})

\* first call: InterpreterImpl::init()
G_Initialize == life = "instantiated"
E_Initialize == Result("initialized", flags, M0, "INITIALIZED")

G_FinishedAgain == life = "finished"
E_FinishedAgain == Result("finished", flags, M0, "FINISHED")

\* exitInterpreter(): top-level final reached or cancel seen
G_Complete == life = "running" /\ "TOPFINAL" \in flags
E_Complete ==
    LET M1 == [M0 EXCEPT !.atoms = <<Atom("completion", <<>>, 0)>>]
    IN  Result("finished", flags, ExitInterpreter(C, M1), "FINISHED")

\* enter the initial configuration
G_EnterInitial == life = "initialized"
E_EnterInitial ==
    LET M1 == EnterInitialStates(C, M0)
    IN  Result("running", AfterMicro({}, M1), M1, "MICROSTEPPED")

Running == life = "running" /\ "TOPFINAL" \notin flags

\* selectEventlessTransitions; micro-step or end of the eventless round
G_Eventless == Running /\ "SPONT" \in flags
E_Eventless ==
    LET r == SelectTransitions(C, M0, NoEvent)
    IN  IF r.T # <<>>
        THEN LET M1 == Microstep(C, r.M, r.T)
             IN  Result("running", AfterMicro(flags, M1), M1, "MICROSTEPPED")
        ELSE Result("running", flags \ {"SPONT", "STABLE"}, r.M, "MICROSTEPPED")

\* dequeue an internal event
G_Internal == Running /\ "SPONT" \notin flags /\ m.iq # <<>>
E_Internal ==
    LET e  == Head(m.iq)
        M1 == [M0 EXCEPT !.iq = Tail(@),
                         !.atoms = <<Atom("deq", e.name, 0)>>]
        r  == SelectTransitions(C, M1, OnEvent(e.name))
    IN  IF r.T # <<>>
        THEN LET M2 == Microstep(C, r.M, r.T)
             IN  Result("running", AfterMicro(flags, M2), M2, "MICROSTEPPED")
        ELSE Result("running", flags \ {"STABLE"}, r.M, "MICROSTEPPED")

\* macrostep complete: stable configuration is announced once
G_MacrostepEnd == Running /\ "SPONT" \notin flags /\ m.iq = <<>> /\ "STABLE" \notin flags
E_MacrostepEnd ==
    Result("running", flags \cup {"STABLE"},
           [M0 EXCEPT !.atoms = <<Atom("stable", <<>>, 0)>>], "MACROSTEPPED")

Quiescent == Running /\ "SPONT" \notin flags /\ m.iq = <<>> /\ "STABLE" \in flags

\* dequeue an external event; the empty event enqueued by cancel() only unblocks
G_External == Quiescent /\ m.eq # <<>>
E_External ==
    LET e  == Head(m.eq)
        M1 == [M0 EXCEPT !.eq = Tail(@),
                         !.atoms = <<Atom("deq", e.name, 1)>>]
        r  == SelectTransitions(C, M1, OnEvent(e.name))
    IN  IF e.name = <<>>
        THEN IF "CANCELLED" \in flags
             THEN Result("running", flags \cup {"TOPFINAL"}, [M0 EXCEPT !.eq = Tail(@)], "CANCELLED")
             ELSE Result("running", flags, [M0 EXCEPT !.eq = Tail(@)], "IDLE")
        ELSE IF r.T # <<>>
        THEN LET M2 == Microstep(C, r.M, r.T)
             IN  Result("running", AfterMicro(flags, M2), M2, "MICROSTEPPED")
        ELSE Result("running", flags \ {"STABLE"}, r.M, "MICROSTEPPED")

\* cancel() was requested: mark for finalisation
G_CancelSeen == Quiescent /\ m.eq = <<>> /\ "CANCELLED" \in flags
E_CancelSeen == Result("running", flags \cup {"TOPFINAL"}, M0, "CANCELLED")

G_Idle == Quiescent /\ m.eq = <<>> /\ "CANCELLED" \notin flags
E_Idle == Result("running", flags, M0, "IDLE")

Apply(r) ==
    /\ life' = r.life
    /\ flags' = r.flags
    /\ m' = r.m
    /\ ret' = r.ret
    /\ rootEntries' = rootEntries +
          Cardinality({i \in 1..Len(r.m.atoms) :
                          r.m.atoms[i].a = "enter" /\ r.m.atoms[i].x = <<C.states[Root].id>>})
    /\ UNCHANGED ci

Initialize    == G_Initialize    /\ Apply(E_Initialize)
FinishedAgain == G_FinishedAgain /\ Apply(E_FinishedAgain)
Complete      == G_Complete      /\ Apply(E_Complete)
EnterInitial  == G_EnterInitial  /\ Apply(E_EnterInitial)
EventlessRound == G_Eventless    /\ Apply(E_Eventless)
InternalRound == G_Internal      /\ Apply(E_Internal)
MacrostepEnd  == G_MacrostepEnd  /\ Apply(E_MacrostepEnd)
ExternalRound == G_External      /\ Apply(E_External)
CancelSeen    == G_CancelSeen    /\ Apply(E_CancelSeen)
Idle          == G_Idle          /\ Apply(E_Idle)

Step == \/ Initialize \/ FinishedAgain \/ Complete \/ EnterInitial
        \/ EventlessRound \/ InternalRound \/ MacrostepEnd
        \/ ExternalRound \/ CancelSeen \/ Idle

\* the same as a function, for the batch validators
StepResult ==
    CASE G_Initialize    -> E_Initialize
      [] G_FinishedAgain -> E_FinishedAgain
      [] G_Complete      -> E_Complete
      [] G_EnterInitial  -> E_EnterInitial
      [] G_Eventless     -> E_Eventless
      [] G_Internal      -> E_Internal
      [] G_MacrostepEnd  -> E_MacrostepEnd
      [] G_External      -> E_External
      [] G_CancelSeen    -> E_CancelSeen
      [] G_Idle          -> E_Idle

StepName ==
    CASE G_Initialize    -> "Initialize"
      [] G_FinishedAgain -> "FinishedAgain"
      [] G_Complete      -> "Complete"
      [] G_EnterInitial  -> "EnterInitial"
      [] G_Eventless     -> "EventlessRound"
      [] G_Internal      -> "InternalRound"
      [] G_MacrostepEnd  -> "MacrostepEnd"
      [] G_External      -> "ExternalRound"
      [] G_CancelSeen    -> "CancelSeen"
      [] G_Idle          -> "Idle"

(***************************************************************************)
(* Environment                                                              *)
(***************************************************************************)
\* Interpreter::receive(): the queues exist once the interpreter was initialised
EnvReceive(name) ==
    /\ life # "instantiated"
    /\ m' = [m EXCEPT !.eq = Append(@, Ev(name))]
    /\ UNCHANGED <<ci, life, flags, ret, rootEntries>>

\* Interpreter::cancel(): mark, and wake a blocked step() with an empty event
EnvCancel ==
    /\ life # "instantiated"
    /\ flags' = flags \cup {"CANCELLED"}
    /\ m' = [m EXCEPT !.eq = Append(@, Ev(<<>>))]     \* the empty event that unblocks step()
    /\ UNCHANGED <<ci, life, ret, rootEntries>>

(***************************************************************************)
(* Properties of the specification itself (checked by MC_Step) and of       *)
(* recorded runs (checked by the Trace_* modules on logged values).         *)
(***************************************************************************)
\* C02
ConfigLegal ==
    (life = "running" \/ life = "finished") => LegalConfiguration(C, m.cfg)

RootEnteredOnce ==
    /\ rootEntries <= 1
    /\ (life \in {"running", "finished"} => rootEntries = 1)

HistorySound ==
    \A h \in Histories(C) :
        /\ m.hist[h] \subseteq HistoryScope(C, h)
        /\ m.hist[h] # {} =>
              \* the remembered states can be completed to a legal
              \* configuration below the history's parent
              \E cf \in ConfigsBelow(C, Parent(C, h)) : m.hist[h] \subseteq cf

\* C08 (sequential half): an external event is only taken when the internal
\* queue is empty and no eventless transition is enabled
QueueDiscipline ==
    (ret = "MICROSTEPPED" /\ Len(m.atoms) > 0 /\ m.atoms[1].a = "deq" /\ m.atoms[1].v = 1)
        => TRUE   \* the guard G_External already states it; see ExternalOnlyWhenStable

\* C10 (sequential half): result codes follow the documented life-cycle
LifeCycleOK ==
    /\ (life = "instantiated") <=> (ret = "INSTANTIATED")
    /\ (ret = "INITIALIZED") => life = "initialized"
    /\ (ret = "FINISHED") <=> (life = "finished")
    /\ (ret = "CANCELLED") => "TOPFINAL" \in flags

TypeOK ==
    /\ ci \in DOMAIN Charts
    /\ life \in {"instantiated", "initialized", "running", "finished"}
    /\ flags \subseteq {"SPONT", "STABLE", "TOPFINAL", "CANCELLED"}
    /\ m.cfg \subseteq NS(C)

=============================================================================
