------------------------------ MODULE ScxmlStep ------------------------------
(***************************************************************************)
(* The interpreter as a state machine: one action per outcome of the public *)
(* call Interpreter::step() (the linearisation point of this sequential     *)
(* library), plus the environment's calls receive() and cancel().           *)
(* Structured like InterpreterImpl::step / LargeMicroStep::step /           *)
(* FastMicroStep::step (which share this skeleton), with Appendix D         *)
(* (ScxmlAlgo) supplying what a micro-step does.                            *)
(*                                                                          *)
(* State:                                                                   *)
(*   ci     index into Charts                                               *)
(*   life   "instantiated" | "initialized" | "running" | "finished"         *)
(*   flags  subset of {"SPONT","STABLE","TOPFINAL","CANCELLED"}              *)
(*   m      machine state (ScxmlAlgo): cfg, hist, inited, dm, iq, eq,       *)
(*          atoms (ghost: observation atoms of the last call), topfinal     *)
(*   ret    result code of the last call (ghost)                            *)
(*   rootEntries  ghost counter (C02: the root is entered exactly once)     *)
(***************************************************************************)
EXTENDS ScxmlAlgo

(* The chart family: a sequence of (augmented) chart values.  TLC re-evaluates *)
(* operator definitions and CONSTANT substitutions on every use, which for a   *)
(* definition that parses a file is ruinous; the family is therefore loaded    *)
(* ONCE by the root module's initial predicate into TLC register 1.            *)
Charts == TLCGet(1)
LoadCharts(raw) == TLCSet(1, TLCEval([i \in DOMAIN raw |-> Aug(raw[i])]))

VARIABLES ci, life, flags, m, ret, rootEntries
vars == <<ci, life, flags, m, ret, rootEntries>>

C == Charts[ci]

VarSet(c) == {c.vars[i] : i \in 1..Len(c.vars)}

InitialM(c) ==
    [cfg |-> {}, hist |-> [h \in Histories(c) |-> {}], inited |-> {},
     dm |-> [n \in VarSet(c) |-> [def |-> FALSE, v |-> 0]],
     iq |-> <<>>, eq |-> <<>>, dq |-> <<>>, atoms |-> <<>>, ok |-> TRUE, topfinal |-> FALSE, condErr |-> {}]

InitFor(i) ==
    /\ ci = i
    /\ life = "instantiated"
    /\ flags = {}
    /\ m = InitialM(Charts[i])
    /\ ret = "INSTANTIATED"
    /\ rootEntries = 0

Init == \E i \in DOMAIN Charts : InitFor(i)

(***************************************************************************)
(* Outcomes of step().  Each is a guard G_x and an effect E_x over a state  *)
(* record S = [life, flags, m] and the chart c, yielding the next           *)
(* [life, flags, m, ret].  The guards are mutually exclusive and complete,  *)
(* in the order in which step() tests them.  (They are parameterised so     *)
(* that executors with a coarser step -- generated C, Promela -- can be     *)
(* specified as iterations of the same function, see StepUntilEffective.)   *)
(***************************************************************************)
Result(l, f, mm, r) == [life |-> l, flags |-> f, m |-> mm, ret |-> r]
Z(S) == [S.m EXCEPT !.atoms = <<>>]        \* every call starts with no atoms

AfterMicro(f, mm) ==   \* flags after a micro-step was taken
    ((f \ {"STABLE"}) \cup {"SPONT"}) \cup (IF mm.topfinal THEN {"TOPFINAL"} ELSE {})

\* first call: InterpreterImpl::init()
G_Initialize(S) == S.life = "instantiated"
E_Initialize(c, S) == Result("initialized", S.flags, Z(S), "INITIALIZED")

G_FinishedAgain(S) == S.life = "finished"
E_FinishedAgain(c, S) == Result("finished", S.flags, Z(S), "FINISHED")

\* exitInterpreter(): top-level final reached or cancel seen
G_Complete(S) == S.life = "running" /\ "TOPFINAL" \in S.flags
E_Complete(c, S) ==
    LET M1 == [Z(S) EXCEPT !.atoms = <<Atom("completion", <<>>, 0)>>]
    IN  Result("finished", S.flags, ExitInterpreter(c, M1), "FINISHED")

\* enter the initial configuration
G_EnterInitial(S) == S.life = "initialized"
E_EnterInitial(c, S) ==
    LET M1 == EnterInitialStates(c, Z(S))
    IN  Result("running", AfterMicro(S.flags \cap {"CANCELLED"}, M1), M1, "MICROSTEPPED")

Running(S) == S.life = "running" /\ "TOPFINAL" \notin S.flags

\* selectEventlessTransitions; micro-step or end of the eventless round
G_Eventless(S) == Running(S) /\ "SPONT" \in S.flags
E_Eventless(c, S) ==
    LET r == SelectTransitions(c, Z(S), NoEvent)
    IN  IF r.T # <<>>
        THEN LET M1 == Microstep(c, r.M, r.T)
             IN  Result("running", AfterMicro(S.flags, M1), M1, "MICROSTEPPED")
        ELSE Result("running", S.flags \ {"SPONT", "STABLE"}, r.M, "MICROSTEPPED")

\* dequeue an internal event
G_Internal(S) == Running(S) /\ "SPONT" \notin S.flags /\ S.m.iq # <<>>
E_Internal(c, S) ==
    LET e  == Head(S.m.iq)
        M1 == [Z(S) EXCEPT !.iq = Tail(@),
                           !.atoms = <<Atom("deq", e.name, 0)>>]
        r  == SelectTransitions(c, M1, OnEvent(e.name))
    IN  IF r.T # <<>>
        THEN LET M2 == Microstep(c, r.M, r.T)
             IN  Result("running", AfterMicro(S.flags, M2), M2, "MICROSTEPPED")
        ELSE Result("running", S.flags \ {"STABLE"}, r.M, "MICROSTEPPED")

\* macrostep complete: stable configuration is announced once
G_MacrostepEnd(S) == Running(S) /\ "SPONT" \notin S.flags /\ S.m.iq = <<>> /\ "STABLE" \notin S.flags
E_MacrostepEnd(c, S) ==
    Result("running", S.flags \cup {"STABLE"},
           [Z(S) EXCEPT !.atoms = <<Atom("stable", <<>>, 0)>>], "MACROSTEPPED")

Quiescent(S) == Running(S) /\ "SPONT" \notin S.flags /\ S.m.iq = <<>> /\ "STABLE" \in S.flags

\* dequeue an external event; the empty event enqueued by cancel() only unblocks
G_External(S) == Quiescent(S) /\ S.m.eq # <<>>
E_External(c, S) ==
    LET e  == Head(S.m.eq)
        M1 == [Z(S) EXCEPT !.eq = Tail(@),
                           !.atoms = <<Atom("deq", e.name, 1)>>]
        r  == SelectTransitions(c, M1, OnEvent(e.name))
    IN  IF e.name = <<>>
        THEN IF "CANCELLED" \in S.flags
             THEN Result("running", S.flags \cup {"TOPFINAL"}, [Z(S) EXCEPT !.eq = Tail(@)], "CANCELLED")
             ELSE Result("running", S.flags, [Z(S) EXCEPT !.eq = Tail(@)], "IDLE")
        ELSE IF r.T # <<>>
        THEN LET M2 == Microstep(c, r.M, r.T)
             IN  Result("running", AfterMicro(S.flags, M2), M2, "MICROSTEPPED")
        ELSE Result("running", S.flags \ {"STABLE"}, r.M, "MICROSTEPPED")

\* cancel() was requested: mark for finalisation
G_CancelSeen(S) == Quiescent(S) /\ S.m.eq = <<>> /\ "CANCELLED" \in S.flags
E_CancelSeen(c, S) == Result("running", S.flags \cup {"TOPFINAL"}, Z(S), "CANCELLED")

G_Idle(S) == Quiescent(S) /\ S.m.eq = <<>> /\ "CANCELLED" \notin S.flags
E_Idle(c, S) == Result("running", S.flags, Z(S), "IDLE")

\* step() as a function of the state
StepOf(c, S) ==
    CASE G_Initialize(S)    -> E_Initialize(c, S)
      [] G_FinishedAgain(S) -> E_FinishedAgain(c, S)
      [] G_Complete(S)      -> E_Complete(c, S)
      [] G_EnterInitial(S)  -> E_EnterInitial(c, S)
      [] G_Eventless(S)     -> E_Eventless(c, S)
      [] G_Internal(S)      -> E_Internal(c, S)
      [] G_MacrostepEnd(S)  -> E_MacrostepEnd(c, S)
      [] G_External(S)      -> E_External(c, S)
      [] G_CancelSeen(S)    -> E_CancelSeen(c, S)
      [] G_Idle(S)          -> E_Idle(c, S)

NameOf(S) ==
    CASE G_Initialize(S)    -> "Initialize"
      [] G_FinishedAgain(S) -> "FinishedAgain"
      [] G_Complete(S)      -> "Complete"
      [] G_EnterInitial(S)  -> "EnterInitial"
      [] G_Eventless(S)     -> "EventlessRound"
      [] G_Internal(S)      -> "InternalRound"
      [] G_MacrostepEnd(S)  -> "MacrostepEnd"
      [] G_External(S)      -> "ExternalRound"
      [] G_CancelSeen(S)    -> "CancelSeen"
      [] G_Idle(S)          -> "Idle"

(* Executors with a coarser step (generated C: uscxml_step() returns only    *)
(* after a micro-step was taken, or when idle / done): iterate StepOf until  *)
(* a call took transitions, concatenating the atoms of the silent calls.     *)
TookMicrostep(r) == \E i \in 1..Len(r.m.atoms) : r.m.atoms[i].a \in {"enter", "exit", "take"}

RECURSIVE StepUntilEffective(_, _, _, _)
StepUntilEffective(c, S, acc, fuel) ==
    LET r == StepOf(c, S)
        atoms == acc \o r.m.atoms
        S2 == [life |-> r.life, flags |-> r.flags, m |-> r.m]
    IN  IF r.ret \in {"IDLE", "FINISHED", "CANCELLED"} \/ TookMicrostep(r) \/ fuel = 0
        THEN [life |-> r.life, flags |-> r.flags, m |-> [r.m EXCEPT !.atoms = atoms], ret |-> r.ret]
        ELSE StepUntilEffective(c, S2, atoms, fuel - 1)

(* Executors observed per run (Promela model under spin): iterate StepOf until the machine is  *)
(* idle or finished, concatenating the atoms of all calls.                                     *)
RECURSIVE StepUntilQuiescent(_, _, _, _)
StepUntilQuiescent(c, S, acc, fuel) ==
    LET r == StepOf(c, S)
        atoms == acc \o r.m.atoms
        S2 == [life |-> r.life, flags |-> r.flags, m |-> r.m]
    IN  IF r.ret \in {"IDLE", "FINISHED", "CANCELLED"} \/ fuel = 0
        THEN [life |-> r.life, flags |-> r.flags, m |-> [r.m EXCEPT !.atoms = atoms],
              ret |-> IF fuel = 0 THEN "LIMIT" ELSE r.ret]
        ELSE StepUntilQuiescent(c, S2, atoms, fuel - 1)

\* the current state as a record
Cur == [life |-> life, flags |-> flags, m |-> m]

Apply(r) ==
    /\ life' = r.life
    /\ flags' = r.flags
    /\ m' = r.m
    /\ ret' = r.ret
    /\ rootEntries' = rootEntries +
          Cardinality({i \in 1..Len(r.m.atoms) :
                          r.m.atoms[i].a = "enter" /\ r.m.atoms[i].x = <<C.states[Root].id>>})
    /\ UNCHANGED ci

Initialize    == G_Initialize(Cur)    /\ Apply(E_Initialize(C, Cur))
FinishedAgain == G_FinishedAgain(Cur) /\ Apply(E_FinishedAgain(C, Cur))
Complete      == G_Complete(Cur)      /\ Apply(E_Complete(C, Cur))
EnterInitial  == G_EnterInitial(Cur)  /\ Apply(E_EnterInitial(C, Cur))
EventlessRound == G_Eventless(Cur)    /\ Apply(E_Eventless(C, Cur))
InternalRound == G_Internal(Cur)      /\ Apply(E_Internal(C, Cur))
MacrostepEnd  == G_MacrostepEnd(Cur)  /\ Apply(E_MacrostepEnd(C, Cur))
ExternalRound == G_External(Cur)      /\ Apply(E_External(C, Cur))
CancelSeen    == G_CancelSeen(Cur)    /\ Apply(E_CancelSeen(C, Cur))
Idle          == G_Idle(Cur)          /\ Apply(E_Idle(C, Cur))

Step == \/ Initialize \/ FinishedAgain \/ Complete \/ EnterInitial
        \/ EventlessRound \/ InternalRound \/ MacrostepEnd
        \/ ExternalRound \/ CancelSeen \/ Idle

\* the same as a function, for the batch validators
StepResult == StepOf(C, Cur)
StepName == NameOf(Cur)

(***************************************************************************)
(* Environment                                                              *)
(***************************************************************************)
\* Interpreter::receive(): the queues exist once the interpreter was initialised
EnvReceive(name) ==
    /\ TRUE      \* in every life-cycle state, also before the first step() (C10)
    /\ m' = [m EXCEPT !.eq = Append(@, Ev(name))]
    /\ UNCHANGED <<ci, life, flags, ret, rootEntries>>

\* the timer of the i-th pending delayed <send> fires (timer thread): the event joins the external queue.
\* Enabled at any time -- the specification says nothing about real time (C09 has its own timed model).
FireAt(M, i) == [M EXCEPT !.dq = SubSeq(@, 1, i - 1) \o SubSeq(@, i + 1, Len(@)),
                          !.eq = Append(@, Ev(M.dq[i].name))]
EnvFire ==
    /\ \E i \in 1..Len(m.dq) : m' = FireAt(m, i)
    /\ UNCHANGED <<ci, life, flags, ret, rootEntries>>

\* Interpreter::cancel(): mark, and wake a blocked step() with an empty event
EnvCancel ==
    /\ TRUE      \* in every life-cycle state
    /\ flags' = flags \cup {"CANCELLED"}
    /\ m' = [m EXCEPT !.eq = Append(@, Ev(<<>>))]     \* the empty event that unblocks step()
    /\ UNCHANGED <<ci, life, ret, rootEntries>>

\* Interpreter::reset(): "a reset interpreter behaves like a freshly created one" (C10) --
\* configuration, history, data, both queues, cancellation mark: everything starts over
EnvReset ==
    /\ life' = "instantiated" /\ flags' = {} /\ m' = InitialM(C)
    /\ ret' = "INSTANTIATED" /\ rootEntries' = 0
    /\ UNCHANGED ci

\* C14: serialize() at a stable point and deserialize() into a fresh interpreter for the same
\* document.  Every abstract variable is unchanged -- configuration, history, initialised
\* data, data values, pending external events, pending delayed events (dq).  Only the "stable configuration announced"
\* flag is not part of the snapshot: the resumed interpreter announces it once more.
EnvResume ==
    /\ life = "running" /\ "SPONT" \notin flags /\ m.iq = <<>> /\ "TOPFINAL" \notin flags
    /\ flags' = flags \ {"STABLE"}
    /\ UNCHANGED <<ci, life, m, ret, rootEntries>>

(***************************************************************************)
(* Properties of the specification itself (checked by MC_Step) and of       *)
(* recorded runs (checked by the Trace_* modules on logged values).         *)
(***************************************************************************)
\* C02
ConfigLegal ==
    (life = "running" \/ life = "finished") => LegalConfiguration(C, m.cfg)

RootEnteredOnce ==
    /\ rootEntries <= 1
    /\ (life \in {"running", "finished"} => rootEntries = 1)

HistorySound ==
    \A h \in Histories(C) :
        /\ m.hist[h] \subseteq HistoryScope(C, h)
        /\ m.hist[h] # {} =>
              \* the remembered states can be completed to a legal
              \* configuration below the history's parent
              \E cf \in ConfigsBelow(C, Parent(C, h)) : m.hist[h] \subseteq cf

\* C08 (sequential half): an external event is only taken when the internal
\* queue is empty and no eventless transition is enabled
QueueDiscipline ==
    (ret = "MICROSTEPPED" /\ Len(m.atoms) > 0 /\ m.atoms[1].a = "deq" /\ m.atoms[1].v = 1)
        => TRUE   \* the guard G_External already states it; see ExternalOnlyWhenStable

\* C10 (sequential half): result codes follow the documented life-cycle
LifeCycleOK ==
    /\ (life = "instantiated") <=> (ret = "INSTANTIATED")
    /\ (ret = "INITIALIZED") => life = "initialized"
    /\ (ret = "FINISHED") <=> (life = "finished")
    /\ (ret = "CANCELLED") => "TOPFINAL" \in flags

TypeOK ==
    /\ ci \in DOMAIN Charts
    /\ life \in {"instantiated", "initialized", "running", "finished"}
    /\ flags \subseteq {"SPONT", "STABLE", "TOPFINAL", "CANCELLED"}
    /\ m.cfg \subseteq NS(C)

=============================================================================
