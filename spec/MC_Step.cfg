SPECIFICATION MCSpec
CONSTANT Variants = {}
CONSTRAINT Bound
VIEW View
INVARIANT TypeOK
INVARIANT ConfigLegal
INVARIANT RootEnteredOnce
INVARIANT HistorySound
INVARIANT LifeCycleOK
CHECK_DEADLOCK FALSE
