----------------------------- MODULE WellFormed -----------------------------
(***************************************************************************)
(* C19: the structural constraints of the Recommendation on a document,     *)
(* over RAW charts: states carry the id as written ("" = none), references  *)
(* (transition targets, initial attribute) are id strings that may name     *)
(* nothing.  The tree itself (parent) is given by index -- the documents    *)
(* are well-formed XML by construction.                                     *)
(*   UniqueIds            3.14: ids are unique within the document          *)
(*   RefsExist            every target / initial names a state              *)
(*   InitialOK            3.2/3.3: the initial attribute of a state names   *)
(*                        descendants of it; <initial> has one transition   *)
(*                        without event and condition, to descendants       *)
(*   HistoryOK            3.10: exactly one default transition, without     *)
(*                        event and condition; shallow -> children of the   *)
(*                        parent, deep -> proper descendants of the parent  *)
(*   TargetsCompatible    3.13: the targets of a transition can be active   *)
(*                        together (part of one legal configuration)        *)
(* A state without id is legal (id is optional).                            *)
(***************************************************************************)
EXTENDS Integers, Sequences, FiniteSets, FiniteSetsExt, TLC

NSr(r) == 1..Len(r.states)
NTr(r) == 1..Len(r.trans)
Seq2Set(s) == {s[i] : i \in 1..Len(s)}

IsProperR(r, s) == r.states[s].kind \notin {"history", "initial"}
WithId(r, i) == {s \in NSr(r) : r.states[s].id = i /\ i # ""}

RECURSIVE AncR(_, _)
AncR(r, s) == IF r.states[s].parent = 0 THEN {} ELSE {r.states[s].parent} \cup AncR(r, r.states[s].parent)
DescR(r, a) == {x \in NSr(r) : a \in AncR(r, x)}
KidsR(r, s) == {x \in NSr(r) : r.states[x].parent = s /\ IsProperR(r, x)}

UniqueIds(r) == \A s, t \in NSr(r) : (s # t /\ r.states[s].id # "") => r.states[s].id # r.states[t].id

AllRefs(r) == UNION {Seq2Set(r.trans[t].tgt) : t \in NTr(r)} \cup UNION {Seq2Set(r.states[s].initattr) : s \in NSr(r)}
RefsExist(r) == \A i \in AllRefs(r) : WithId(r, i) # {}

\* the state an id refers to (only meaningful when UniqueIds and RefsExist hold)
Ref(r, i) == CHOOSE s \in WithId(r, i) : TRUE

TransOfR(r, s) == {t \in NTr(r) : r.trans[t].src = s}

InitialOK(r) ==
    /\ \A s \in NSr(r) : r.states[s].kind = "state" =>
          \A i \in Seq2Set(r.states[s].initattr) : Ref(r, i) \in DescR(r, s)
    /\ \A s \in NSr(r) : r.states[s].kind = "scxml" =>
          \A i \in Seq2Set(r.states[s].initattr) : Ref(r, i) \in DescR(r, s)
    /\ \A s \in NSr(r) : r.states[s].kind = "initial" =>
          /\ Cardinality(TransOfR(r, s)) = 1
          /\ \A t \in TransOfR(r, s) :
                /\ Len(r.trans[t].ev) = 0 /\ ~r.trans[t].hascond /\ Len(r.trans[t].tgt) > 0
                /\ \A i \in Seq2Set(r.trans[t].tgt) : Ref(r, i) \in DescR(r, r.states[s].parent)

HistoryOK(r) ==
    \A h \in NSr(r) : r.states[h].kind = "history" =>
        /\ Cardinality(TransOfR(r, h)) = 1
        /\ \A t \in TransOfR(r, h) :
              /\ Len(r.trans[t].ev) = 0 /\ ~r.trans[t].hascond /\ Len(r.trans[t].tgt) > 0
              /\ \A i \in Seq2Set(r.trans[t].tgt) :
                    IF r.states[h].deep THEN Ref(r, i) \in DescR(r, r.states[h].parent)
                    ELSE r.states[Ref(r, i)].parent = r.states[h].parent

\* two proper states can be active together iff one is an ancestor of the other or their
\* least common ancestor is a <parallel>
Lca(r, a, b) == Max((AncR(r, a) \cup {a}) \cap (AncR(r, b) \cup {b}))
Compatible(r, a, b) ==
    \/ a = b \/ a \in AncR(r, b) \/ b \in AncR(r, a)
    \/ r.states[Lca(r, a, b)].kind = "parallel"

\* a history target stands for its parent's subtree
Anchor(r, s) == IF r.states[s].kind = "history" THEN r.states[s].parent ELSE s

TargetsCompatible(r) ==
    \A t \in NTr(r) : \A i, j \in Seq2Set(r.trans[t].tgt) :
        Compatible(r, Anchor(r, Ref(r, i)), Anchor(r, Ref(r, j)))

\* 3.2 / 3.3: the states named by an initial attribute can be active together
InitialCompatible(r) ==
    \A s \in NSr(r) : r.states[s].kind \in {"state", "scxml"} =>
        \A i, j \in Seq2Set(r.states[s].initattr) : Compatible(r, Ref(r, i), Ref(r, j))

WellFormed(r) ==
    /\ UniqueIds(r)
    /\ RefsExist(r)
    /\ InitialOK(r) /\ InitialCompatible(r) /\ HistoryOK(r) /\ TargetsCompatible(r)

WhyNot(r) ==
    IF ~UniqueIds(r) THEN "duplicate-id"
    ELSE IF ~RefsExist(r) THEN "dangling-reference"
    ELSE IF ~InitialOK(r) \/ ~InitialCompatible(r) THEN "bad-initial"
    ELSE IF ~HistoryOK(r) THEN "bad-history"
    ELSE IF ~TargetsCompatible(r) THEN "incompatible-targets"
    ELSE "well-formed"
=============================================================================
