----------------------------- MODULE Trace_Delay -----------------------------
(***************************************************************************)
(* C09: recorded runs of delayed sends and cancels (harness/mt_delay,       *)
(* random mode) validated against the timing contract.  Time is the logged  *)
(* monotonic clock in milliseconds since the start of the run.              *)
(*   send(i, id, delay, t)  <send event=d.i id=id delay=..> executed at t     *)
(*                       (several sends may share one sendid)               *)
(*   cancel(id, t)       <cancel sendid=id> returned at t: cancels EVERY    *)
(*                       pending event that was sent with that id           *)
(*   deliver(i, t)       the event was taken from the external queue at t   *)
(* Granularities (assumptions, see evidence): G = 5 ms for "not early"       *)
(* (libevent reads CLOCK_MONOTONIC_COARSE, one kernel tick = 4 ms here),    *)
(* order is only required for due times at least OrderGap ms apart.         *)
(***************************************************************************)
EXTENDS Integers, Sequences, FiniteSets, Json, IOUtils, TLC

Log == TLCGet(1)
G == 5
OrderGap == 12

VARIABLES l, sent, cancelledAt, deliveredAt, skip, run
tvars == <<l, sent, cancelledAt, deliveredAt, skip, run>>

Report(v) == PrintT("VERDICT " \o ToJson(v))
Line == Log[l]
NoTime == -1

DInit == /\ TLCSet(1, ndJsonDeserialize(IOEnv.TRACE))
         /\ l = 1 /\ sent = <<>> /\ cancelledAt = <<>> /\ deliveredAt = <<>> /\ skip = TRUE /\ run = 0

DReset == /\ Line.k = "reset"
          /\ sent' = [i \in 1..Line.n |-> [t |-> NoTime, delay |-> 0, id |-> 0]]
          /\ cancelledAt' = [i \in 1..Line.n |-> NoTime]
          /\ deliveredAt' = [i \in 1..Line.n |-> NoTime]
          /\ skip' = FALSE /\ run' = Line.run /\ l' = l + 1

Verdict(why) == [case |-> run, chart |-> 0, exec |-> "mt_delay", line |-> l, property |-> "C09", why |-> why,
                 action |-> Line.k, expected |-> [sent |-> sent, cancelled |-> cancelledAt, delivered |-> deliveredAt],
                 got |-> Line, extra |-> <<>>]

Due(i) == sent[i].t + sent[i].delay

DSend == /\ Line.k = "send" /\ ~skip
         /\ sent' = [sent EXCEPT ![Line.i] = [t |-> Line.t, delay |-> Line.delay, id |-> Line.id]]
         /\ UNCHANGED <<cancelledAt, deliveredAt, skip, run>> /\ l' = l + 1

DCancel == /\ Line.k = "cancel" /\ ~skip
           /\ cancelledAt' = [i \in DOMAIN cancelledAt |->
                                  IF sent[i].t # NoTime /\ sent[i].id = Line.id /\ cancelledAt[i] = NoTime
                                  THEN Line.t ELSE cancelledAt[i]]
           /\ UNCHANGED <<sent, deliveredAt, skip, run>> /\ l' = l + 1

DDeliver ==
    /\ Line.k = "deliver" /\ ~skip
    /\ LET i == Line.i
           twice == deliveredAt[i] # NoTime
           unsent == sent[i].t = NoTime
           early == ~unsent /\ Line.t < Due(i) - G
           \* a cancel that returned before the due time (by more than the granularity) wins
           cancelledBefore == ~unsent /\ cancelledAt[i] # NoTime /\ cancelledAt[i] < Due(i) - G
           \* some other event that is still pending was due much earlier
           overtaken == ~unsent /\ \E j \in DOMAIN sent :
                            /\ j # i /\ sent[j].t # NoTime /\ deliveredAt[j] = NoTime /\ cancelledAt[j] = NoTime
                            /\ Due(j) + OrderGap <= Due(i)
           bad == twice \/ unsent \/ early \/ cancelledBefore \/ overtaken
       IN  /\ (twice => Report(Verdict("delivered-twice")))
           /\ (unsent => Report(Verdict("delivered-but-never-sent")))
           /\ (early => Report(Verdict("delivered-before-its-delay-elapsed")))
           /\ (cancelledBefore => Report(Verdict("delivered-although-cancelled-before-due")))
           /\ (overtaken /\ ~cancelledBefore => Report(Verdict("delivered-before-an-event-due-much-earlier")))
           /\ skip' = bad
           /\ deliveredAt' = [deliveredAt EXCEPT ![i] = IF @ = NoTime THEN Line.t ELSE @]
    /\ UNCHANGED <<sent, cancelledAt, run>> /\ l' = l + 1

\* end of the run (the harness waits until well after the last due time)
DEnd == /\ Line.k = "end" /\ ~skip
        /\ LET lost == {i \in DOMAIN sent : sent[i].t # NoTime /\ cancelledAt[i] = NoTime /\ deliveredAt[i] = NoTime}
           IN  /\ (lost # {} /\ Line.exit = "ok" => Report([Verdict("never-delivered") EXCEPT !.extra = <<lost>>]))
               /\ (Line.exit # "ok" => Report(Verdict("run-ended-" \o Line.exit)))
        /\ skip' = TRUE /\ UNCHANGED <<sent, cancelledAt, deliveredAt, run>> /\ l' = l + 1

DSkip == /\ skip /\ Line.k \in {"send", "cancel", "deliver", "end"}
         /\ (Line.k = "end" /\ Line.exit # "ok" => Report(Verdict("run-ended-" \o Line.exit)))
         /\ UNCHANGED <<sent, cancelledAt, deliveredAt, skip, run>> /\ l' = l + 1

DNext == l <= Len(Log) /\ (DReset \/ DSend \/ DCancel \/ DDeliver \/ DEnd \/ DSkip)
DSpec == DInit /\ [][DNext]_tvars
Consumed == TLCGet("stats").diameter = Len(Log) + 1
=============================================================================
