------------------------------ MODULE VhdlStep ------------------------------
(***************************************************************************)
(* C18: the combinational micro-step logic emitted by ChartToVHDL, read as  *)
(* a boolean function, against one step of the SCXML algorithm (ScxmlAlgo,  *)
(* under the transpilers' conflict relation: Variants = {"static"}).        *)
(*                                                                          *)
(*   CHARTS  ndjson, line i = chart i (as for ScxmlStep); the condition of  *)
(*           transition t is either true or the free input  c<t> == 1       *)
(*   EQS     ndjson, line i = the concurrent signal assignments of the      *)
(*           micro_stepper architecture emitted for chart i, as parsed from *)
(*           the VHDL text, in dependency order:                            *)
(*             [chart, cyclic, eqs: <<[n, e]>>, events: <<[sig, name]>>,    *)
(*              inputs: <<signal names read but never assigned>>]           *)
(*           e: [k:"c",v] | [k:"s",n] | [k:"and"|"or",a:<<e>>] | [k:"not",a:<<e>>] *)
(*                                                                          *)
(* For every chart, every legal configuration (without an active top-level  *)
(* final state: the circuit stalls there), every situation                   *)
(*     spontaneous step | event e | spontaneous step with e pending         *)
(* and every valuation of the condition inputs, TLC evaluates the emitted    *)
(* equations and compares the optimal transition set, exit set, entry set    *)
(* and next configuration with the specification's; the reset step must      *)
(* yield the initial configuration.  Mismatches are printed as VERDICT lines.*)
(***************************************************************************)
EXTENDS ScxmlAlgo, Json, IOUtils

Charts == TLCGet(1)
Eqs    == TLCGet(2)
Load   == /\ TLCSet(1, TLCEval(LET raw == ndJsonDeserialize(IOEnv.CHARTS) IN [i \in DOMAIN raw |-> Aug(raw[i])]))
          /\ TLCSet(2, ndJsonDeserialize(IOEnv.EQS))

Report(v) == PrintT("VERDICT " \o ToJson(v))

(* ---- evaluation of the emitted equations ---- *)
RECURSIVE EvalE(_, _)
EvalE(e, env) ==
    CASE e.k = "c"   -> e.v
      [] e.k = "s"   -> e.n \in env
      [] e.k = "and" -> \A j \in 1..Len(e.a) : EvalE(e.a[j], env)
      [] e.k = "or"  -> \E j \in 1..Len(e.a) : EvalE(e.a[j], env)
      [] e.k = "not" -> ~EvalE(e.a[1], env)

RECURSIVE EvalAll(_, _, _)
EvalAll(eqs, j, env) ==
    IF j > Len(eqs) THEN env
    ELSE EvalAll(eqs, j + 1, IF EvalE(eqs[j].e, env) THEN env \cup {eqs[j].n} ELSE env)

(* ---- uSCXML's numbering ---- *)
\* states: document order, the root is 0
StateSig(prefix, s) == prefix \o ToString(s - 1) \o "_sig"
\* transitions: states in post-fix order (children, in document order, before their parent;
\* pseudo states count), per state its transitions in document order
AllKidsSeq(c, s) == DocSeq({x \in NS(c) : Parent(c, x) = s})
RECURSIVE PostStates(_, _)
PostStates(c, s) ==
    LET kids == AllKidsSeq(c, s)
        F[i \in 0..Len(kids)] == IF i = 0 THEN <<>> ELSE F[i-1] \o PostStates(c, kids[i])
    IN  F[Len(kids)] \o <<s>>
TransOfAny(c, s) == DocSeq({t \in NT(c) : c.trans[t].src = s})
PostTrans(c) ==
    LET ps == PostStates(c, Root)
        F[i \in 0..Len(ps)] == IF i = 0 THEN <<>> ELSE F[i-1] \o TransOfAny(c, ps[i])
    IN  F[Len(ps)]
PosOf(seq, x) == CHOOSE i \in 1..Len(seq) : seq[i] = x
TransSig(pt, t) == "in_optimal_transition_set_" \o ToString(PosOf(pt, t) - 1) \o "_sig"
CondSig(pt, t)  == "transition_condition_fulfilled_" \o ToString(PosOf(pt, t) - 1) \o "_i"

(* ---- one comparison ---- *)
HasCond(c, t) == c.trans[t].cond.k = "cmp"
CondVar(t) == "c" \o ToString(t)

MFor(c, cfg, val) ==
    [cfg |-> cfg, hist |-> [h \in Histories(c) |-> {}], inited |-> {},
     dm |-> [n \in {CondVar(t) : t \in {x \in NT(c) : HasCond(c, x)}} |->
                [def |-> TRUE, v |-> IF \E t \in val : CondVar(t) = n THEN 1 ELSE 0]],
     iq |-> <<>>, eq |-> <<>>, dq |-> <<>>, atoms |-> <<>>, ok |-> TRUE, topfinal |-> FALSE, condErr |-> {}]

SeqSet(s) == {s[i] : i \in 1..Len(s)}

\* the specification's step: [T, exit, enter, next]
SpecStep(c, cfg, val, sit) ==
    LET M  == MFor(c, cfg, val)
        T0 == IF sit.spont THEN SelectTransitions(c, M, NoEvent).T ELSE <<>>
        T  == IF T0 # <<>> \/ ~sit.has THEN T0 ELSE SelectTransitions(c, M, OnEvent(sit.name)).T
        ex == ComputeExitSet(c, M, T)
        en == ComputeEntrySet(c, M.hist, T, 1, EmptyAcc).enter
    IN  [T |-> SeqSet(T), exit |-> ex, enter |-> en, next |-> (cfg \ ex) \cup en]

\* the environment is the set of signals that are '1'
InputEnv(c, q, nm, cfg, val, sit, reset) ==
    LET evsig == IF sit.has /\ \E k \in 1..Len(q.events) : q.events[k].name = sit.name
                 THEN {q.events[CHOOSE k \in 1..Len(q.events) : q.events[k].name = sit.name].sig}
                 ELSE {}
    IN  {"en"} \cup {nm.act[s] : s \in cfg} \cup {nm.cond[t] : t \in val} \cup evsig
        \cup (IF sit.spont THEN {"spontaneous_en"} ELSE {})
        \cup (IF reset THEN {"in_complete_entry_set_0_sig"} ELSE {})

VhdlStepOf(c, nm, env) ==
    [T     |-> {t \in NT(c) : nm.tr[t] \in env},
     exit  |-> {s \in NS(c) : nm.ex[s] \in env},
     enter |-> {s \in NS(c) : nm.en[s] \in env},
     next  |-> {s \in NS(c) : nm.nx[s] \in env}]

\* signal names per state / transition, computed once per chart
Names(c) ==
    LET pt == PostTrans(c)
    IN  [act  |-> TLCEval([s \in NS(c) |-> StateSig("state_active_", s)]),
         ex   |-> TLCEval([s \in NS(c) |-> StateSig("in_exit_set_", s)]),
         en   |-> TLCEval([s \in NS(c) |-> StateSig("in_entry_set_", s)]),
         nx   |-> TLCEval([s \in NS(c) |-> StateSig("state_next_", s)]),
         tr   |-> TLCEval([t \in NT(c) |-> TransSig(pt, t)]),
         cond |-> TLCEval([t \in NT(c) |-> CondSig(pt, t)])]

Ids(c, S) == {c.states[s].id : s \in S}
TIds(c, S) == {c.trans[t].id : t \in S}

Situations(c, q) ==
    LET evs == {q.events[k].name : k \in 1..Len(q.events)}
    IN  {[spont |-> TRUE, has |-> FALSE, name |-> <<>>]}
        \cup {[spont |-> FALSE, has |-> TRUE, name |-> e] : e \in evs}
        \cup {[spont |-> TRUE, has |-> TRUE, name |-> e] : e \in evs}

TopFinalActive(c, cfg) == \E s \in cfg : IsFinal(c, s) /\ Parent(c, s) = Root

\* signals the environment cannot justify (neither assigned nor a known input)
KnownInput(c, q, nm, n) ==
    \/ n \in {"in_complete_entry_set_0_sig", "spontaneous_en", "en"}
    \/ \E s \in NS(c) : n = nm.act[s]
    \/ \E t \in NT(c) : HasCond(c, t) /\ n = nm.cond[t]
    \/ \E k \in 1..Len(q.events) : q.events[k].sig = n

CheckOne(c, q, nm, cfg, val, sit) ==
    LET env == EvalAll(q.eqs, 1, InputEnv(c, q, nm, cfg, val, sit, FALSE))
        v   == VhdlStepOf(c, nm, env)
        s   == SpecStep(c, cfg, val, sit)
        why == IF v.T # s.T THEN "transitions"
               ELSE IF v.exit # s.exit THEN "exit-set"
               ELSE IF v.enter # s.enter THEN "entry-set"
               ELSE IF v.next # s.next THEN "next"
               ELSE "ok"
    IN  IF why = "ok" THEN TRUE ELSE
        Report([property |-> "C18", chart |-> c.id, why |-> why,
                cfg |-> Ids(c, cfg), conds |-> TIds(c, val),
                situation |-> [spont |-> sit.spont, event |-> sit.name],
                expected |-> [T |-> TIds(c, s.T), exit |-> Ids(c, s.exit), enter |-> Ids(c, s.enter), next |-> Ids(c, s.next)],
                got |-> [T |-> TIds(c, v.T), exit |-> Ids(c, v.exit), enter |-> Ids(c, v.enter), next |-> Ids(c, v.next)]])

CheckReset(c, q, nm) ==
    LET sit == [spont |-> TRUE, has |-> FALSE, name |-> <<>>]
        env == EvalAll(q.eqs, 1, InputEnv(c, q, nm, {}, {}, sit, TRUE))
        v   == VhdlStepOf(c, nm, env)
        exp == AddDesc(c, [h \in Histories(c) |-> {}], Root, EmptyAcc).enter
    IN  IF v.next = exp THEN TRUE ELSE
        Report([property |-> "C18", chart |-> c.id, why |-> "reset", cfg |-> {}, conds |-> {},
                situation |-> [spont |-> TRUE, event |-> <<>>],
                expected |-> [T |-> {}, exit |-> {}, enter |-> Ids(c, exp), next |-> Ids(c, exp)],
                got |-> [T |-> TIds(c, v.T), exit |-> Ids(c, v.exit), enter |-> Ids(c, v.enter), next |-> Ids(c, v.next)]])

CheckChart(i) ==
    LET c  == Charts[i]
        q  == Eqs[i]
        nm == TLCEval(Names(c))
        condT == {t \in NT(c) : HasCond(c, t)}
        cfgs  == {g \in AllLegalConfigurations(c) : ~TopFinalActive(c, g)}
        bad   == {n \in SeqSet(q.inputs) : ~KnownInput(c, q, nm, n)}
    IN  IF q.cyclic \/ q.error # ""
        THEN Report([property |-> "C18", chart |-> c.id, why |-> IF q.cyclic THEN "combinational-loop" ELSE "unparsable",
                     cfg |-> {}, conds |-> {}, situation |-> [spont |-> FALSE, event |-> <<>>],
                     expected |-> "", got |-> q.error])
        ELSE /\ (IF bad = {} THEN TRUE
                 ELSE Report([property |-> "C18", chart |-> c.id, why |-> "undriven-signal", cfg |-> {}, conds |-> {},
                              situation |-> [spont |-> FALSE, event |-> <<>>], expected |-> "", got |-> bad]))
             /\ CheckReset(c, q, nm)
             /\ \A cfg \in cfgs : \A val \in SUBSET condT : \A sit \in Situations(c, q) :
                    CheckOne(c, q, nm, cfg, val, sit)
             /\ PrintT("COUNT " \o ToJson([chart |-> c.id, cfgs |-> Cardinality(cfgs), conds |-> Cardinality(condT),
                                           situations |-> Cardinality(Situations(c, q)),
                                           cases |-> Cardinality(cfgs) * (2 ^ Cardinality(condT)) * Cardinality(Situations(c, q))]))

VARIABLE i
Init == Load /\ i = 1
Next == /\ i <= Len(Charts)
        /\ CheckChart(i)
        /\ i' = i + 1
Spec == Init /\ [][Next]_i
Done == TLCGet("stats").diameter = Len(Charts) + 1
=============================================================================
