------------------------------ MODULE Trace_Step ------------------------------
(***************************************************************************)
(* Batch trace validation (DESIGN.md 4.2): runs recorded from the real      *)
(* executors are replayed against ScxmlStep.  One TLC run judges a whole    *)
(* shard of cases; the search is linear because the specification's step is *)
(* a function of (state, environment input).                                *)
(*                                                                          *)
(*   TRACE  ndjson file of reset / call / end lines (Appendix B)            *)
(*   CHARTS ndjson file of chart values (Appendix A), line i = chart i      *)
(*                                                                          *)
(* A mismatch does not disable the action: it is reported as a VERDICT line *)
(* and the rest of the case is skipped, so that later cases are still       *)
(* judged (needed to tell a known finding from a new violation).            *)
(* With STRICT=1 in the environment a mismatch disables the action instead  *)
(* (plain trace validation; used by `bin/check replay').                    *)
(***************************************************************************)
EXTENDS ScxmlStep, Json, IOUtils, TLC

\* Both files are loaded once by TInit into TLC registers (see ScxmlStep.Charts)
TraceLog == TLCGet(2)
LoadTrace == TLCSet(2, ndJsonDeserialize(IOEnv.TRACE))
Strict         == "STRICT" \in DOMAIN IOEnv /\ IOEnv.STRICT = "1"

VARIABLES l, skip, case
tvars == <<vars, l, skip, case>>

Line == TraceLog[l]

Report(v) == PrintT("VERDICT " \o ToJson(v))

IdsOf(c, S) == {c.states[s].id : s \in S}
SeqToSet(s) == {s[i] : i \in 1..Len(s)}

\* configuration legality is judged on the LOGGED configuration (C02),
\* independently of whether it is the one the specification expects
LoggedCfgIdx(c, ids) == {s \in NS(c) : c.states[s].id \in SeqToSet(ids)}

(* projection of the specification's atoms onto what an executor can show *)
Visible(exec, a) ==
    CASE exec \in {"large", "fast"} -> TRUE
      [] exec = "genc" -> a.a \in {"deq", "log", "raise", "send"}
      \* the interpreter with its DEFAULT components (no recording queues installed)
      [] exec = "default" -> a.a \notin {"deq", "raise", "send"}
      [] exec = "pml"  -> a.a \in {"deq", "log", "exit", "enter"}
      [] OTHER -> TRUE

Project(exec, atoms) == SelectSeq(atoms, LAMBDA a : Visible(exec, a))

FirstDiff(a, b) ==
    LET n == IF Len(a) < Len(b) THEN Len(a) ELSE Len(b)
        d == {i \in 1..n : a[i] # b[i]}
    IN  IF d = {} THEN n + 1 ELSE Min(d)

\* vacuity watch: how often each action of ScxmlStep was the one that explained a
\* recorded step() (TLC's own -coverage runs out of memory on chart values)
ActionNames == <<"Initialize", "FinishedAgain", "Complete", "EnterInitial", "EventlessRound",
                 "InternalRound", "MacrostepEnd", "ExternalRound", "CancelSeen", "Idle">>
ActIdx(n) == 10 + (CHOOSE i \in 1..Len(ActionNames) : ActionNames[i] = n)
Count(n) == TLCSet(ActIdx(n), TLCGet(ActIdx(n)) + 1)
PrintCounts == PrintT("COUNTS " \o ToJson([i \in 1..Len(ActionNames) |-> <<ActionNames[i], TLCGet(10 + i)>>]))

TInit ==
    /\ \A i \in 1..Len(ActionNames) : TLCSet(10 + i, 0)
    /\ LoadCharts(ndJsonDeserialize(IOEnv.CHARTS))
    /\ LoadTrace
    /\ InitFor(1)
    /\ l = 1
    /\ skip = TRUE
    /\ case = [case |-> 0, exec |-> "none", chart |-> 1, resumed |-> FALSE, api |-> FALSE, settle |-> 0]

TReset ==
    /\ Line.k = "reset"
    /\ ci' = Line.chart
    /\ life' = "instantiated"
    /\ flags' = {}
    /\ m' = InitialM(Charts[Line.chart])
    /\ ret' = "INSTANTIATED"
    /\ rootEntries' = 0
    /\ skip' = FALSE
    /\ case' = [case |-> Line.case, exec |-> Line.exec, chart |-> Line.chart, resumed |-> FALSE, api |-> Line.mode = "api",
                settle |-> IF "settle" \in DOMAIN Line THEN Line.settle ELSE 0]
    /\ l' = l + 1

PropOf(p) == IF case.api /\ p \in {"C01", "C07"} THEN "C10"
             ELSE IF case.resumed /\ p \in {"C01", "C10"} THEN "C14"
             ELSE IF case.exec = "genc" /\ p \in {"C01", "C10", "C07"} THEN "C04"
             ELSE IF case.exec = "pml" /\ p \in {"C01", "C10", "C07"} THEN "C06" ELSE p

Verdict(prop, why, exp, got, extra) ==
    [case |-> case.case, chart |-> case.chart, exec |-> case.exec, line |-> l,
     property |-> PropOf(prop), why |-> why, action |-> StepName,
     expected |-> exp, got |-> got, extra |-> extra]

\* result codes of the generated C machine's uscxml_step()
GencRet(r) == CASE r = "MICROSTEPPED" -> "OK" [] r = "MACROSTEPPED" -> "OK" [] r = "IDLE" -> "IDLE"
                [] r = "FINISHED" -> "DONE" [] OTHER -> r

Coarse == case.exec \in {"genc"}

(* A delayed <send> fires on the timer thread; the recording sees it only when the event is   *)
(* dequeued.  If the recorded call dequeues an external event that is not at the head of the  *)
(* specification's external queue but is pending as delayed, its timer has fired (EnvFire):   *)
(* it may have fired before anything that was received since, so it goes to the head.         *)
FiredState(S, atoms) ==
    LET ds == SelectSeq(atoms, LAMBDA a : a.a = "deq" /\ a.v = 1)
    IN  IF Len(ds) = 0 \/ Len(S.m.dq) = 0 THEN S
        ELSE LET x == ds[1].x
                 is == {i \in 1..Len(S.m.dq) : S.m.dq[i].name = x}
             IN  IF is # {} /\ (S.m.eq = <<>> \/ Head(S.m.eq).name # x)
                 THEN LET i == CHOOSE j \in is : \A k \in is : j <= k
                      IN  [S EXCEPT !.m.dq = SubSeq(@, 1, i - 1) \o SubSeq(@, i + 1, Len(@)),
                                    !.m.eq = <<Ev(S.m.dq[i].name)>> \o @]
                 ELSE S

TStep ==
    /\ Line.k = "call" /\ Line.op = "step" /\ ~skip
    /\ LET r0   == IF case.exec = "pml" THEN StepUntilQuiescent(C, Cur, <<>>, 120)
                   ELSE IF Coarse THEN StepUntilEffective(C, Cur, <<>>, 400)
                   ELSE StepOf(C, FiredState(Cur, Line.atoms))
           r    == IF Coarse THEN [r0 EXCEPT !.ret = GencRet(@)] ELSE r0
           exp  == Project(case.exec, r.m.atoms)
           got  == Project(case.exec, Line.atoms)
           ecfg == IdsOf(C, r.m.cfg)
           gcfg == SeqToSet(Line.cfg)
           lcfg == LoggedCfgIdx(C, Line.cfg)
           settled == r.ret # "INITIALIZED"
           badLegal == settled /\ r.life \in {"running", "finished"}
                          /\ (case.exec = "pml" => Line.ret = "IDLE")
                          /\ ~LegalConfiguration(C, lcfg)
           \* a run that spin cut off (depth limit) is compared on the common prefix
           cut  == case.exec = "pml" /\ Line.ret = "LIMIT"
           n    == IF Len(exp) < Len(got) THEN Len(exp) ELSE Len(got)
           badAtoms == IF cut THEN (r.ret # "LIMIT" /\ Len(got) > Len(exp)) \/ SubSeq(exp, 1, n) # SubSeq(got, 1, n)
                       ELSE exp # got
           \* the Promela model prints its configuration at the start of a step only
           badCfg   == settled /\ (case.exec = "pml" => Line.ret = "IDLE") /\ ecfg # gcfg
           badRet   == ~cut /\ r.ret # Line.ret
       IN  /\ Apply(r)
           /\ Count(StepName)
           /\ IF badLegal \/ badAtoms \/ badCfg \/ badRet
              THEN /\ ~Strict
                   /\ skip' = TRUE
                   /\ (badLegal => Report(Verdict("C02", IllegalWhy(C, lcfg), ecfg, gcfg, <<>>)))
                   /\ (badAtoms => Report(Verdict("C01", "atoms", exp, got,
                                           <<FirstDiff(exp, got)>>)))
                   /\ (~badAtoms /\ badCfg => Report(Verdict("C01", "cfg", ecfg, gcfg, <<>>)))
                   /\ (~badAtoms /\ ~badCfg /\ badRet =>
                            Report(Verdict("C10", "ret", r.ret, Line.ret, <<>>)))
              ELSE skip' = FALSE
    /\ UNCHANGED case
    /\ l' = l + 1

TReceive ==
    /\ Line.k = "call" /\ Line.op = "receive" /\ ~skip
    /\ EnvReceive(Line.arg)
    /\ UNCHANGED <<skip, case>>
    /\ l' = l + 1

TCancel ==
    /\ Line.k = "call" /\ Line.op = "cancel" /\ ~skip
    /\ EnvCancel
    /\ UNCHANGED <<skip, case>>
    /\ l' = l + 1

TResetCall ==
    /\ Line.k = "call" /\ Line.op = "reset" /\ ~skip
    /\ EnvReset
    /\ UNCHANGED <<skip, case>>
    /\ l' = l + 1

\* C14: the original interpreter was serialized and a fresh one resumed from the text
TResume ==
    /\ Line.k = "call" /\ Line.op = "resume" /\ ~skip
    /\ IF Line.ret = "ok" /\ ENABLED EnvResume
       THEN EnvResume /\ UNCHANGED skip /\ case' = [case EXCEPT !.resumed = TRUE]
       ELSE /\ ~Strict
            /\ Report([Verdict("C14", "resume-" \o Line.ret, "ok", Line.ret, <<>>) EXCEPT !.property = "C14"])
            /\ skip' = TRUE /\ UNCHANGED <<vars, case>>
    /\ l' = l + 1

\* final data values and the way the process ended
TEnd ==
    /\ Line.k = "end" /\ ~skip
    /\ LET badExit == Line.exit # "ok"
           dmGot == {<<Line.dm[i].n, Line.dm[i].def, Line.dm[i].v>> : i \in 1..Len(Line.dm)}
           \* a variable whose initialisation failed is an "empty data element" (IRP #277):
           \* what reading it yields is the datamodel's business; only bound variables are compared
           bound == {n \in DOMAIN m.dm : m.dm[n].def}
           dmExp == {<<n, TRUE, m.dm[n].v>> : n \in bound}
           badDm == ~badExit /\ Line.dm # <<>> /\ ~(dmExp \subseteq dmGot)
           \* the recording waited (settle) far longer than any delay: a delayed event still pending
           \* in a running machine was lost (never delivered); finished machines discard theirs
           lost  == ~badExit /\ case.settle > 0 /\ life = "running" /\ ~Line.limit
                    /\ "settled" \in DOMAIN Line /\ Line.settled
                    /\ Len(m.dq) > 0
       IN  /\ (badExit => Report(Verdict("C07", "exit", "ok", Line.exit, <<>>)))
           /\ (badDm => Report(Verdict("C01", "data", dmExp, dmGot, <<>>)))
           /\ (lost => Report(Verdict("C01", "delayed-event-lost", [i \in 1..Len(m.dq) |-> m.dq[i].name], <<>>, <<>>)))
           /\ (Strict => ~badExit /\ ~badDm /\ ~lost)
    /\ skip' = TRUE
    /\ UNCHANGED <<vars, case>>
    /\ l' = l + 1

\* lines of a case that already produced a verdict, and notes
TSkip ==
    /\ \/ Line.k = "note"
       \/ (skip /\ Line.k \in {"call", "end"})
    /\ (Line.k = "end" /\ Line.exit # "ok" =>
            Report(Verdict("C07", "exit", "ok", Line.exit, <<"after-verdict">>)))
    /\ UNCHANGED <<vars, skip, case>>
    /\ l' = l + 1

TNext == /\ l <= Len(TraceLog)
         /\ (TReset \/ TStep \/ TReceive \/ TCancel \/ TResetCall \/ TResume \/ TEnd \/ TSkip)
         /\ (l = Len(TraceLog) => PrintCounts)

TraceSpec == TInit /\ [][TNext]_tvars

\* acceptance: every line was consumed (otherwise the validator itself is stuck,
\* which is a failure of the machinery, or -- in strict mode -- a rejection)
Consumed == TLCGet("stats").diameter = Len(TraceLog) + 1

=============================================================================
