----------------------------- MODULE MC_LuaValue -----------------------------
(***************************************************************************)
(* C16: values that Lua represents unambiguously, the ways they enter the   *)
(* Lua datamodel and the way they are read back.  The specification of the  *)
(* trip is the identity on values for every way in:                         *)
(*     Out(In(w, v)) = v                                                    *)
(* and, for the system variables, ProtectedNames: an assignment raises      *)
(* error.execution and leaves the variable unchanged.                       *)
(* A value is [t |-> "str", s |-> index into Strings] | [t |-> "int", n]    *)
(*   | [t |-> "real", n |-> index] | [t |-> "bool", b] | [t |-> "arr", e]   *)
(*   | [t |-> "map", k |-> <<key indices>>, v |-> <<values>>]               *)
(* TLC contributes the bounded-exhaustive domain Values x Ways.             *)
(***************************************************************************)
EXTENDS Integers, Sequences, FiniteSets, Json, IOUtils, TLC

Level == IF "LEVEL" \in DOMAIN IOEnv THEN atoi(IOEnv.LEVEL) ELSE 1

\* Strings (by index): 1 ""  2 "a"  3 "1"  4 "1.5"  5 "nil"  6 "true"  7 "return 1"  8 "a b"  9 "x.y"  10 "-2"
StrIdx == 1..10
IntVals == {0, 7, -3, 12}
RealIdx == 1..2            \* 1.5, -0.25
KeyIdx == 1..3             \* "k", "x y", "a1"   (non-numeric keys)
Ways == {"assign", "init", "event"}

Str(i) == [t |-> "str", s |-> i]
IntV(n) == [t |-> "int", n |-> n]
RealV(i) == [t |-> "real", n |-> i]
Bool(b) == [t |-> "bool", b |-> b]
Arr(e) == [t |-> "arr", e |-> e]
Map(k, v) == [t |-> "map", k |-> k, v |-> v]

Atoms == {Str(i) : i \in StrIdx} \cup {IntV(n) : n \in IntVals} \cup {RealV(i) : i \in RealIdx} \cup {Bool(TRUE), Bool(FALSE)}
Few == {Str(1), Str(2), Str(3), IntV(7), RealV(1), Bool(TRUE)}
L1 == Atoms \cup {Arr(<<a>>) : a \in Atoms} \cup {Map(<<k>>, <<a>>) : k \in KeyIdx, a \in Atoms}
Inner == Few \cup {Arr(<<a>>) : a \in {Str(2), IntV(7)}} \cup {Map(<<1>>, <<a>>) : a \in {Str(3), Bool(FALSE)}}
L2 == {Arr(<<a, b>>) : a \in Inner, b \in Inner} \cup {Map(<<1, 2>>, <<a, b>>) : a \in Inner, b \in Inner}
      \cup {Map(<<3>>, <<Arr(<<a, Map(<<1>>, <<b>>)>>)>>) : a \in Few, b \in Few}
Values == IF Level <= 1 THEN L1 ELSE L1 \cup L2

VARIABLES v, w
Init == v \in Values /\ w \in Ways
Next == UNCHANGED <<v, w>>
\* the expected result of reading back: the value itself
Emit == PrintT("VEC " \o ToJson([w |-> w, v |-> v, expected |-> v]))
=============================================================================
