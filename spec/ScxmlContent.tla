---------------------------- MODULE ScxmlContent ----------------------------
(***************************************************************************)
(* Expressions and executable content of the reference fragment             *)
(* (DESIGN.md 3.2) as data, and their meaning.                              *)
(*                                                                          *)
(* An execution environment E is a record                                   *)
(*   cfg   : active configuration (for In())                                *)
(*   dm    : variable name -> [def : BOOLEAN, v : Int]                      *)
(*   iq,eq : internal / external queue, sequences of events [name: tokens]  *)
(*   atoms : observation atoms produced so far (DESIGN.md 3.1)              *)
(*   ok    : FALSE once an element of the current block failed              *)
(* Error locality (C07, Rec. 4.x "...MUST NOT execute the remaining         *)
(* elements of the block", IRP #159ff): a failing element raises            *)
(* error.execution / error.communication into iq and only the rest of       *)
(* *its block* is skipped.                                                  *)
(***************************************************************************)
EXTENDS ScxmlChart

Atom(a, x, v) == [a |-> a, x |-> x, v |-> v]
Ev(name)      == [name |-> name]
ErrExec == <<"error", "execution">>
ErrComm == <<"error", "communication">>

Fail(v) == [ok |-> FALSE, v |-> v]
Good(v) == [ok |-> TRUE,  v |-> v]

RECURSIVE EvalI(_, _)
EvalI(e, dm) ==
    CASE e.k = "lit" -> Good(e.v)
      [] e.k = "var" -> IF e.n \in DOMAIN dm /\ dm[e.n].def THEN Good(dm[e.n].v) ELSE Fail(0)
      [] e.k = "bin" ->
            LET a == EvalI(e.a, dm)
                b == EvalI(e.b, dm)
            IN  IF ~a.ok \/ ~b.ok THEN Fail(0)
                ELSE Good(CASE e.o = "+" -> a.v + b.v
                            [] e.o = "-" -> a.v - b.v
                            [] e.o = "*" -> a.v * b.v)
      [] e.k = "ierr" -> Fail(0)            \* an expression the datamodel rejects

RECURSIVE EvalB(_, _, _)
EvalB(e, dm, cfg) ==
    CASE e.k = "true" -> Good(TRUE)
      [] e.k = "false" -> Good(FALSE)
      [] e.k = "cmp" ->
            LET a == EvalI(e.a, dm)
                b == EvalI(e.b, dm)
            IN  IF ~a.ok \/ ~b.ok THEN Fail(FALSE)
                ELSE Good(CASE e.o = "==" -> a.v = b.v
                            [] e.o = "!=" -> a.v # b.v
                            [] e.o = "<"  -> a.v < b.v
                            [] e.o = "<=" -> a.v <= b.v
                            [] e.o = ">"  -> a.v > b.v
                            [] e.o = ">=" -> a.v >= b.v)
      [] e.k = "and" ->
            LET a == EvalB(e.a, dm, cfg) IN
            IF ~a.ok THEN Fail(FALSE)
            ELSE IF ~a.v THEN Good(FALSE) ELSE EvalB(e.b, dm, cfg)
      [] e.k = "or" ->
            LET a == EvalB(e.a, dm, cfg) IN
            IF ~a.ok THEN Fail(FALSE)
            ELSE IF a.v THEN Good(TRUE) ELSE EvalB(e.b, dm, cfg)
      [] e.k = "not" ->
            LET a == EvalB(e.a, dm, cfg) IN
            IF ~a.ok THEN Fail(FALSE) ELSE Good(~a.v)
      [] e.k = "in" -> Good(e.s \in cfg)
      [] e.k = "berr" -> Fail(FALSE)        \* a condition the datamodel rejects

Raise(E, name) == [E EXCEPT !.iq = Append(@, Ev(name)),
                            !.atoms = Append(@, Atom("raise", name, 0))]
RaiseErr(E, name) == [Raise(E, name) EXCEPT !.ok = FALSE]

(* conditionMatch / <if cond>: an error raises error.execution and counts   *)
(* as false (IRP #244, #245, #344); the block is NOT aborted.               *)
CondResult(E, cond) ==
    LET r == EvalB(cond, E.dm, E.cfg)
    IN  IF r.ok THEN [E |-> E, v |-> r.v]
        ELSE [E |-> Raise(E, ErrExec), v |-> FALSE]

RECURSIVE ExecSeq(_, _, _), ExecOp(_, _), ExecArms(_, _, _), ExecForeach(_, _, _)

ExecSeq(ops, i, E) ==
    IF i > Len(ops) \/ ~E.ok THEN E
    ELSE ExecSeq(ops, i + 1, ExecOp(ops[i], E))

ExecArms(arms, i, E) ==
    IF i > Len(arms) THEN E
    ELSE LET r == CondResult(E, arms[i].cond)
         IN  IF r.v THEN ExecSeq(arms[i].body, 1, r.E)
             ELSE ExecArms(arms, i + 1, r.E)

\* <foreach>: the item variable takes the elements in turn (a shallow copy of the array is iterated: the
\* elements are those at the start); an error in the body ends the loop -- and the rest of the block
ExecForeach(op, k, E) ==
    IF k > Len(op.vals) \/ ~E.ok THEN E
    ELSE IF ~(op.item \in DOMAIN E.dm /\ E.dm[op.item].def) THEN RaiseErr(E, ErrExec)
    ELSE ExecForeach(op, k + 1, ExecSeq(op.body, 1, [E EXCEPT !.dm[op.item] = [def |-> TRUE, v |-> op.vals[k]]]))

ExecOp(op, E) ==
    CASE op.op = "log" ->
            LET r == EvalI(op.e, E.dm) IN
            IF r.ok THEN [E EXCEPT !.atoms = Append(@, Atom("log", <<op.label>>, r.v))]
            ELSE RaiseErr(E, ErrExec)
      [] op.op = "raise" -> Raise(E, op.ev)
      [] op.op = "assign" ->
            LET r == EvalI(op.e, E.dm) IN
            IF r.ok /\ op.var \in DOMAIN E.dm /\ E.dm[op.var].def
            THEN [E EXCEPT !.dm[op.var] = [def |-> TRUE, v |-> r.v]]
            ELSE RaiseErr(E, ErrExec)
      [] op.op = "send" ->      \* <send> to the session's own external queue
            IF op.delay = 0
            THEN [E EXCEPT !.eq = Append(@, Ev(op.ev)),
                           !.atoms = Append(@, Atom("send", op.ev, 0))]
            \* delayed: held by the delay queue (dq) until its timer fires (ScxmlStep!EnvFire);
            \* nothing reaches the external queue now, hence no atom
            ELSE [E EXCEPT !.dq = Append(@, [name |-> op.ev, sid |-> op.sid])]
      [] op.op = "cancel" ->    \* <cancel sendid>: every pending delayed event sent with that id is dropped
            [E EXCEPT !.dq = SelectSeq(@, LAMBDA d : d.sid # op.sid)]
      [] op.op = "if" -> ExecArms(op.arms, 1, E)
      [] op.op = "foreach" -> ExecForeach(op, 1, E)
      [] op.op = "fault" ->
            IF op.kind \in {"sendtarget"} THEN RaiseErr(E, ErrComm)
            ELSE RaiseErr(E, ErrExec)

\* one block of executable content (one <onentry>, <onexit> or <transition>)
ExecBlock(ops, E) == [ExecSeq(ops, 1, E) EXCEPT !.ok = TRUE]

RECURSIVE ExecBlocks(_, _, _)
ExecBlocks(blocks, i, E) ==
    IF i > Len(blocks) THEN E
    ELSE ExecBlocks(blocks, i + 1, ExecBlock(blocks[i], E))

\* <data> initialisation: an expression error leaves the variable declared
\* but unbound and raises error.execution (IRP #277).
RECURSIVE InitData(_, _, _)
InitData(datas, i, E) ==
    IF i > Len(datas) THEN E
    ELSE LET r == EvalI(datas[i].e, E.dm)
             E1 == IF r.ok
                   THEN [E EXCEPT !.dm[datas[i].var] = [def |-> TRUE, v |-> r.v]]
                   ELSE [Raise(E, ErrExec) EXCEPT !.dm[datas[i].var] = [def |-> FALSE, v |-> 0]]
         IN  InitData(datas, i + 1, E1)

=============================================================================
