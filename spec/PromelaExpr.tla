----------------------------- MODULE PromelaExpr -----------------------------
(***************************************************************************)
(* C17: the value Promela / C integer arithmetic defines for expressions    *)
(* over declared variables, and their concrete syntax.                      *)
(*                                                                          *)
(* An expression is an AST value                                            *)
(*   [k |-> "lit", v |-> Int] | [k |-> "var", n |-> STRING]                 *)
(*   [k |-> "arr", n |-> STRING, i |-> ast]                                 *)
(*   [k |-> "bin", o |-> op, a |-> ast, b |-> ast] | [k |-> "un", o, a]      *)
(* Eval yields [ok |-> BOOLEAN, v |-> Int]; comparison and boolean          *)
(* operators yield 0/1; / and % truncate toward zero; faults (division by   *)
(* zero, index out of range, undeclared name) yield ok = FALSE; && and ||   *)
(* evaluate their right operand only if needed (left-to-right evaluation    *)
(* is observable only through faults).                                      *)
(* Render produces the text with minimal or with full parenthesisation      *)
(* according to Promela's precedence table and left associativity.          *)
(***************************************************************************)
EXTENDS Integers, Sequences, FiniteSets, TLC

Fail == [ok |-> FALSE, v |-> 0]
Ok(v) == [ok |-> TRUE, v |-> v]
B(b) == IF b THEN 1 ELSE 0

Abs(x) == IF x < 0 THEN -x ELSE x
\* C: truncation toward zero
TDiv(a, b) == IF (a < 0) = (b < 0) THEN Abs(a) \div Abs(b) ELSE -(Abs(a) \div Abs(b))
TMod(a, b) == a - b * TDiv(a, b)

RECURSIVE Pow2(_)
Pow2(n) == IF n = 0 THEN 1 ELSE 2 * Pow2(n - 1)

\* env: [ints : name -> Int, arrs : name -> Seq(Int)]   (arrays are 0-based in Promela)
RECURSIVE Eval(_, _)
Eval(e, env) ==
    CASE e.k = "lit" -> Ok(e.v)
      [] e.k = "var" -> IF e.n \in DOMAIN env.ints THEN Ok(env.ints[e.n]) ELSE Fail
      [] e.k = "arr" ->
            LET i == Eval(e.i, env) IN
            IF ~i.ok \/ e.n \notin DOMAIN env.arrs THEN Fail
            ELSE IF i.v < 0 \/ i.v >= Len(env.arrs[e.n]) THEN Fail
            ELSE Ok(env.arrs[e.n][i.v + 1])
      [] e.k = "un" ->
            LET a == Eval(e.a, env) IN
            IF ~a.ok THEN Fail
            ELSE IF e.o = "!" THEN Ok(B(a.v = 0)) ELSE Ok(-a.v)
      [] e.k = "bin" ->
            LET a == Eval(e.a, env) IN
            IF ~a.ok THEN Fail
            ELSE IF e.o = "&&" /\ a.v = 0 THEN Ok(0)
            ELSE IF e.o = "||" /\ a.v # 0 THEN Ok(1)
            ELSE LET b == Eval(e.b, env) IN
                 IF ~b.ok THEN Fail
                 ELSE CASE e.o = "+" -> Ok(a.v + b.v)
                        [] e.o = "-" -> Ok(a.v - b.v)
                        [] e.o = "*" -> Ok(a.v * b.v)
                        [] e.o = "/" -> IF b.v = 0 THEN Fail ELSE Ok(TDiv(a.v, b.v))
                        [] e.o = "%" -> IF b.v = 0 THEN Fail ELSE Ok(TMod(a.v, b.v))
                        [] e.o = "<<" -> Ok(a.v * Pow2(b.v))
                        [] e.o = ">>" -> Ok(a.v \div Pow2(b.v))
                        [] e.o = "<" -> Ok(B(a.v < b.v))
                        [] e.o = "<=" -> Ok(B(a.v <= b.v))
                        [] e.o = ">" -> Ok(B(a.v > b.v))
                        [] e.o = ">=" -> Ok(B(a.v >= b.v))
                        [] e.o = "==" -> Ok(B(a.v = b.v))
                        [] e.o = "!=" -> Ok(B(a.v # b.v))
                        [] e.o = "&&" -> Ok(B(b.v # 0))
                        [] e.o = "||" -> Ok(B(b.v # 0))

\* shifts are only defined (and only generated) for small non-negative operands
RECURSIVE Defined(_, _)
Defined(e, env) ==
    CASE e.k \in {"lit", "var"} -> TRUE
      [] e.k = "arr" -> Defined(e.i, env)
      [] e.k = "un" -> Defined(e.a, env)
      [] e.k = "bin" ->
            /\ Defined(e.a, env) /\ Defined(e.b, env)
            /\ e.o \in {"<<", ">>"} =>
                  LET a == Eval(e.a, env)
                      b == Eval(e.b, env)
                  IN  a.ok /\ b.ok /\ a.v >= 0 /\ a.v <= 255 /\ b.v >= 0 /\ b.v <= 8

Prec(o) ==
    CASE o = "||" -> 1 [] o = "&&" -> 2
      [] o \in {"==", "!="} -> 6 [] o \in {"<", "<=", ">", ">="} -> 7
      [] o \in {"<<", ">>"} -> 8 [] o \in {"+", "-"} -> 9 [] o \in {"*", "/", "%"} -> 10

ExprPrec(e) == IF e.k = "bin" THEN Prec(e.o) ELSE IF e.k = "un" THEN 11 ELSE 12

RECURSIVE Render(_, _)
Render(e, full) ==
    CASE e.k = "lit" -> IF e.v < 0 THEN "(" \o ToString(e.v) \o ")" ELSE ToString(e.v)
      [] e.k = "var" -> e.n
      [] e.k = "arr" -> e.n \o "[" \o Render(e.i, full) \o "]"
      [] e.k = "un" ->
            LET inner == Render(e.a, full)
                par == full \/ ExprPrec(e.a) < 11 \/ (e.a.k = "un")   \* "--a" and "!!a" are written with parentheses
            IN  e.o \o (IF par /\ e.a.k \notin {"lit", "var", "arr"} THEN "(" \o inner \o ")"
                        ELSE IF par /\ full /\ e.a.k \in {"lit", "var", "arr"} THEN inner ELSE inner)
      [] e.k = "bin" ->
            LET p == Prec(e.o)
                la == Render(e.a, full)
                lb == Render(e.b, full)
                atomA == e.a.k \in {"lit", "var", "arr"}
                atomB == e.b.k \in {"lit", "var", "arr"}
                pa == ~atomA /\ (full \/ ExprPrec(e.a) < p)
                pb == ~atomB /\ (full \/ ExprPrec(e.b) <= p)      \* left associative
            IN  (IF pa THEN "(" \o la \o ")" ELSE la) \o " " \o e.o \o " " \o
                (IF pb THEN "(" \o lb \o ")" ELSE lb)
=============================================================================
