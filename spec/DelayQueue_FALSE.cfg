SPECIFICATION Spec
CONSTANTS Timers = {"u1", "u2"}
 Repaired = FALSE
INVARIANT NoUseAfterFree
INVARIANT AtMostOnce
INVARIANT CancelWins
INVARIANT MutexSane
INVARIANT NoDeadlock
CHECK_DEADLOCK FALSE
