SPECIFICATION QSpec
CHECK_DEADLOCK FALSE
POSTCONDITION Consumed
