----------------------------- MODULE ScxmlChart -----------------------------
(***************************************************************************)
(* Structure of an SCXML chart as a VALUE.  A chart `c' is a record read    *)
(* from JSON (see DESIGN.md, Appendix A):                                   *)
(*   c.states : sequence of state records, index = W3C document order of   *)
(*              the source text, index 1 is <scxml>                         *)
(*   c.trans  : sequence of transition records in document order            *)
(* Every operator here is a pure function of the chart (and possibly a      *)
(* configuration); nothing in this module knows about execution.            *)
(* The comments "IRP #nnn" name the assertion ids of test/w3c/manifest.xml  *)
(* (the only copy of the Recommendation's normative text in the sandbox).   *)
(***************************************************************************)
EXTENDS Integers, Sequences, FiniteSets, FiniteSetsExt, SequencesExt, TLC

NS(c) == 1..Len(c.states)          \* state indices
NT(c) == 1..Len(c.trans)           \* transition indices
Root  == 1

Kind(c, s)   == c.states[s].kind
Parent(c, s) == c.states[s].parent           \* 0 for the root

IsHistory(c, s)  == Kind(c, s) = "history"
IsInitialEl(c, s) == Kind(c, s) = "initial"
IsPseudo(c, s)   == Kind(c, s) \in {"history", "initial"}
IsFinal(c, s)    == Kind(c, s) = "final"
IsParallel(c, s) == Kind(c, s) = "parallel"
IsProper(c, s)   == ~IsPseudo(c, s)          \* <scxml>, state, parallel, final

(***************************************************************************)
(* Definitions on the raw chart value (suffix R) ...                        *)
(***************************************************************************)
\* child *states* (pseudo-states are not states, Rec. 3.11)
ChildrenR(c, s) == {x \in NS(c) : Parent(c, x) = s /\ IsProper(c, x)}

RECURSIVE AncestorsR(_, _)
\* proper ancestors of s, up to and including the root
AncestorsR(c, s) == IF Parent(c, s) = 0 THEN {}
                    ELSE {Parent(c, s)} \cup AncestorsR(c, Parent(c, s))

\* s, parent(s), ..., root  -- the search order of selectTransitions
RECURSIVE SelfAndAncestorsSeqR(_, _)
SelfAndAncestorsSeqR(c, s) ==
    IF Parent(c, s) = 0 THEN <<s>>
    ELSE <<s>> \o SelfAndAncestorsSeqR(c, Parent(c, s))

\* ascending sequence of a set of indices = document order
DocSeq(S)  == SetToSortSeq(S, <)
\* exit order = reverse document order
RevSeq(S)  == SetToSortSeq(S, >)

(***************************************************************************)
(* ... and the chart value augmented ONCE with the derived structure, so    *)
(* that TLC does not recompute ancestor sets in every step.  Everything     *)
(* below reads the augmented chart; Aug is the only place where the         *)
(* derived fields are defined.                                              *)
(***************************************************************************)
\* uSCXML's post-fix order (children, in document order, before their parent; pseudo states count as
\* children) and the ordinary transitions in that order, per state in document order
RECURSIVE PostStatesR(_, _)
PostStatesR(c, s) ==
    LET kids == SetToSortSeq({x \in NS(c) : Parent(c, x) = s}, <)
        F[i \in 0..Len(kids)] == IF i = 0 THEN <<>> ELSE F[i-1] \o PostStatesR(c, kids[i])
    IN  F[Len(kids)] \o <<s>>
PostTransNormalR(c) ==
    LET ps == PostStatesR(c, Root)
        F[i \in 0..Len(ps)] ==
            IF i = 0 THEN <<>>
            ELSE F[i-1] \o SetToSortSeq({t \in NT(c) : c.trans[t].src = ps[i] /\ c.trans[t].kind = "normal"}, <)
    IN  F[Len(ps)]

Aug(c) ==
    LET anc  == TLCEval([s \in NS(c) |-> AncestorsR(c, s)])
        kids == TLCEval([s \in NS(c) |-> ChildrenR(c, s)])
    IN  \* an explicit record (eager), every derived table made explicit by TLCEval
        [id |-> c.id, binding |-> c.binding, vars |-> c.vars, states |-> c.states,
         trans |-> c.trans, alldata |-> c.alldata, alphabet |-> c.alphabet,
         anc   |-> anc,
         kids  |-> kids,
         desc  |-> TLCEval([s \in NS(c) |-> {x \in NS(c) : s \in anc[x]}]),
         chain |-> TLCEval([s \in NS(c) |-> SelfAndAncestorsSeqR(c, s)]),
         tof   |-> TLCEval([s \in NS(c) |->
                      DocSeq({t \in NT(c) : c.trans[t].src = s /\ c.trans[t].kind = "normal"})]),
         ptn   |-> TLCEval(PostTransNormalR(c)),
         ptr   |-> TLCEval([s \in NS(c) |->
                      IF IsPseudo(c, s) /\ \E t \in NT(c) : c.trans[t].src = s
                      THEN CHOOSE t \in NT(c) : c.trans[t].src = s ELSE 0])]

Children(c, s)  == c.kids[s]
Ancestors(c, s) == c.anc[s]
Descendants(c, a) == c.desc[a]
IsDescendant(c, s, a) == a \in c.anc[s]
SelfAndAncestorsSeq(c, s) == c.chain[s]
HistoriesOf(c, s) == {x \in NS(c) : Parent(c, x) = s /\ IsHistory(c, x)}

IsAtomic(c, s)   == IsProper(c, s) /\ c.kids[s] = {}
IsCompound(c, s) == Kind(c, s) \in {"state", "scxml"} /\ c.kids[s] # {}

\* getProperAncestors(s, upTo): ancestors strictly below upTo (upTo = 0: all)
ProperAncestors(c, s, upTo) ==
    IF upTo = 0 THEN c.anc[s]
    ELSE {a \in c.anc[s] : upTo \in c.anc[a]}

\* transitions of state s in document order (only ordinary ones are selectable)
TransOfSeq(c, s) == c.tof[s]
\* the single default transition of a history state / <initial> element
PseudoTrans(c, s) == c.ptr[s]

(***************************************************************************)
(* Event descriptor matching, Rec. 3.12.1 (IRP #403ff).  A descriptor and   *)
(* an event name are token sequences.  "*" and "" are tokens: "a.*" is      *)
(* <<"a","*">>, "a." is <<"a","">>, "*" is <<"*">>.                          *)
(***************************************************************************)
StripDesc(d) ==
    LET d1 == IF Len(d) > 0 /\ d[Len(d)] = "*" THEN SubSeq(d, 1, Len(d) - 1) ELSE d
    IN  IF Len(d1) > 0 /\ d1[Len(d1)] = "" THEN SubSeq(d1, 1, Len(d1) - 1) ELSE d1

DescMatches(d, name) ==
    LET p == StripDesc(d)
    IN  /\ Len(p) <= Len(name)
        /\ \A i \in 1..Len(p) : p[i] = name[i]

NameMatch(descs, name) == \E i \in 1..Len(descs) : DescMatches(descs[i], name)

(***************************************************************************)
(* Legal configurations, Rec. 3.11                                          *)
(***************************************************************************)
LegalConfiguration(c, cfg) ==
    /\ Root \in cfg
    /\ \A s \in cfg : IsProper(c, s)
    /\ \A s \in cfg : s # Root => Parent(c, s) \in cfg
    /\ \A s \in cfg : IsCompound(c, s) => Cardinality(Children(c, s) \cap cfg) = 1
    /\ \A s \in cfg : IsParallel(c, s) => Children(c, s) \subseteq cfg
    /\ \E s \in cfg : IsAtomic(c, s)

\* which clause fails first -- used for diagnostics in verdicts
IllegalWhy(c, cfg) ==
    IF Root \notin cfg THEN "root-inactive"
    ELSE IF \E s \in cfg : ~IsProper(c, s) THEN "pseudo-state-active"
    ELSE IF \E s \in cfg : s # Root /\ Parent(c, s) \notin cfg THEN "parent-inactive"
    ELSE IF \E s \in cfg : IsCompound(c, s) /\ Cardinality(Children(c, s) \cap cfg) = 0 THEN "compound-without-child"
    ELSE IF \E s \in cfg : IsCompound(c, s) /\ Cardinality(Children(c, s) \cap cfg) > 1 THEN "compound-with-two-children"
    ELSE IF \E s \in cfg : IsParallel(c, s) /\ ~(Children(c, s) \subseteq cfg) THEN "parallel-child-inactive"
    ELSE IF ~\E s \in cfg : IsAtomic(c, s) THEN "no-atomic"
    ELSE "legal"

\* all legal configurations of a chart (used by the VHDL and validator specs)
RECURSIVE ConfigsBelow(_, _)
\* set of sets: the legal ways to be active in s and below
ConfigsBelow(c, s) ==
    IF IsAtomic(c, s) THEN {{s}}
    ELSE IF IsParallel(c, s) THEN
        LET kids == DocSeq(Children(c, s))
            Prod[i \in 0..Len(kids)] ==
               IF i = 0 THEN {{s}}
               ELSE {a \cup b : a \in Prod[i-1], b \in ConfigsBelow(c, kids[i])}
        IN  Prod[Len(kids)]
    ELSE UNION {{ {s} \cup b : b \in ConfigsBelow(c, k)} : k \in Children(c, s)}

AllLegalConfigurations(c) == ConfigsBelow(c, Root)

(***************************************************************************)
(* History value soundness (C02): the remembered states of history h are    *)
(* proper states in h's scope -- children of the parent (shallow), atomic   *)
(* descendants of the parent (deep, Appendix D) -- that were active         *)
(* together in some earlier configuration `seen'.                           *)
(***************************************************************************)
HistoryScope(c, h) ==
    IF c.states[h].deep
    THEN {x \in Descendants(c, Parent(c, h)) : IsProper(c, x)}
    ELSE Children(c, Parent(c, h))

=============================================================================
