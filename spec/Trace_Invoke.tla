----------------------------- MODULE Trace_Invoke -----------------------------
(***************************************************************************)
(* C11: recorded runs of a parent session with one <invoke id="K"> in state *)
(* p1 and its invoked child session (harness/mt_invoke; both sessions       *)
(* report to one monitor, one lock, one sequence).  The specification keeps *)
(* the abstract state of Invoke.tla -- is the invoking state active, is the *)
(* invocation running, did the child complete on its own, what did the      *)
(* child send -- and every recorded callback must be enabled in it:         *)
(*  StartOnce   bIV only while p1 is active and no invocation runs; when a  *)
(*              macrostep of the parent ends with p1 active it runs         *)
(*  CancelOnce  bUI only while an invocation runs and p1 is not active;     *)
(*              when a macrostep ends with p1 inactive none runs            *)
(*  Done        the parent processes done.invoke.K at most once per         *)
(*              invocation and only if the child completed before the       *)
(*              cancellation began; if it did, the event must arrive        *)
(*  Silent      no callback of the child outside bIV .. aUI                 *)
(*  Routing     c.* events reach the parent in the order the child sent     *)
(*              them, each at most once; what the child sends while being   *)
(*              cancelled never reaches the parent; "go" reaches the child  *)
(*              only as often as the parent sent it; "ping" only with       *)
(*              autoforward                                                 *)
(*  Finalize    with <finalize>, its content runs before the parent         *)
(*              processes the child's event; without, never                 *)
(***************************************************************************)
EXTENDS Integers, Sequences, FiniteSets, Json, IOUtils, TLC

Log == TLCGet(1)

VARIABLES l, skip, run, opts,
          inP1,        \* the invoking state is active in the parent
          running,     \* an invocation runs (between bIV and aUI)
          cancelling,  \* between bUI and aUI
          ownDone,     \* the child of the current invocation completed before any cancellation
          doneSeen,    \* the parent processed done.invoke.K for the current invocation
          doneOwed,    \* cancelled invocations whose child had completed: their done event MAY still arrive
          csent,       \* c.* events sent by the child and not yet processed by the parent (FIFO)
          goSent, goGot,  \* "go" sent by the parent / processed by the child in this invocation
          finPending,  \* finalize content ran and the child's event is not processed yet
          invFresh     \* an invocation was started and the macrostep end (stable notice) was not announced yet
tvars == <<l, skip, run, opts, inP1, running, cancelling, ownDone, doneSeen, doneOwed, csent, goSent, goGot, finPending, invFresh>>

Report(v) == PrintT("VERDICT " \o ToJson(v))
Line == Log[l]

IInit == /\ TLCSet(1, ndJsonDeserialize(IOEnv.TRACE))
         /\ l = 1 /\ skip = TRUE /\ run = 0 /\ opts = [autoforward |-> FALSE, finalize |-> FALSE, child |-> 0]
         /\ inP1 = FALSE /\ running = FALSE /\ cancelling = FALSE /\ ownDone = FALSE /\ doneSeen = FALSE /\ doneOwed = 0
         /\ csent = <<>> /\ goSent = 0 /\ goGot = 0 /\ finPending = FALSE /\ invFresh = FALSE

IReset == /\ Line.k = "reset"
          /\ run' = Line.run /\ opts' = [autoforward |-> Line.autoforward, finalize |-> Line.finalize, child |-> Line.child]
          /\ skip' = (Line.scenario # "one")      \* runs of the other scenario are judged by Trace_InvokeAll
          /\ inP1' = FALSE /\ running' = FALSE /\ cancelling' = FALSE /\ ownDone' = FALSE
          /\ doneSeen' = FALSE /\ doneOwed' = 0 /\ csent' = <<>> /\ goSent' = 0 /\ goGot' = 0 /\ finPending' = FALSE
          /\ invFresh' = FALSE
          /\ l' = l + 1

Verdict(why) == [case |-> run, chart |-> 0, exec |-> "mt_invoke", line |-> l, property |-> "C11", why |-> why,
                 action |-> IF "cb" \in DOMAIN Line THEN Line.cb ELSE "end", got |-> Line,
                 expected |-> [inP1 |-> inP1, running |-> running, cancelling |-> cancelling, ownDone |-> ownDone,
                               doneSeen |-> doneSeen, csent |-> csent, opts |-> opts], extra |-> <<>>]

Keep == UNCHANGED <<run, opts, inP1, running, cancelling, ownDone, doneSeen, doneOwed, csent, goSent, goGot, finPending, invFresh>>
Bad(why) == Report(Verdict(why)) /\ skip' = TRUE /\ Keep

IsChildEvent(n) == n \in {"c.1", "c.2", "c.3", "c.pong", "c.fwd", "c.late"}

\* callbacks of the parent session
IParent ==
    /\ Line.k = "ev" /\ Line.r = "P" /\ ~skip
    /\ LET cb == Line.cb
           a == Line.a
       IN
       CASE cb = "bES" /\ a = "p1" ->
              inP1' = TRUE /\ UNCHANGED <<skip, run, opts, running, cancelling, ownDone, doneSeen, doneOwed, csent, goSent, goGot, finPending, invFresh>>
         [] cb = "bXS" /\ a = "p1" ->
              inP1' = FALSE /\ UNCHANGED <<skip, run, opts, running, cancelling, ownDone, doneSeen, doneOwed, csent, goSent, goGot, finPending, invFresh>>
         [] cb = "bIV" ->
              IF inP1 /\ ~running
              THEN /\ running' = TRUE /\ ownDone' = FALSE /\ doneSeen' = FALSE /\ goSent' = 0 /\ goGot' = 0
                   /\ invFresh' = TRUE
                   /\ UNCHANGED <<skip, run, opts, inP1, cancelling, doneOwed, csent, finPending>>
              ELSE Bad("invoke-started-twice-or-outside-its-state")
         [] cb = "bUI" ->
              IF running /\ ~cancelling /\ ~inP1
              THEN cancelling' = TRUE /\ UNCHANGED <<skip, run, opts, inP1, running, ownDone, doneSeen, doneOwed, csent, goSent, goGot, finPending, invFresh>>
              ELSE Bad("invoke-cancelled-twice-or-while-its-state-is-active")
         [] cb = "aUI" ->
              IF cancelling
              THEN /\ running' = FALSE /\ cancelling' = FALSE
                   \* what the child sent and the parent has not processed may still be queued; it was sent before the cancellation
                   /\ doneOwed' = doneOwed + (IF ownDone /\ ~doneSeen THEN 1 ELSE 0)
                   /\ UNCHANGED <<skip, run, opts, inP1, ownDone, doneSeen, csent, goSent, goGot, finPending, invFresh>>
              ELSE Bad("afterUninvoking-without-beforeUninvoking")
         [] cb = "oSC" ->
              \* a macrostep of the parent ended
              IF inP1 /\ ~running THEN Bad("macrostep-ended-with-state-active-but-invoke-not-started")
              ELSE IF ~inP1 /\ running THEN Bad("macrostep-ended-with-state-exited-but-invoke-not-cancelled")
              ELSE /\ skip' = FALSE /\ invFresh' = FALSE
                   /\ UNCHANGED <<run, opts, inP1, running, cancelling, ownDone, doneSeen, doneOwed, csent, goSent, goGot, finPending>>
         [] cb = "bMS" /\ invFresh ->
              \* invocations are started when the macrostep is over: no further micro-step before the stable notice
              Bad("invoke-started-before-the-macrostep-ended")
         [] cb = "bPE" /\ a = "done.invoke.K" ->
              IF running /\ ownDone /\ ~doneSeen
              THEN doneSeen' = TRUE /\ UNCHANGED <<skip, run, opts, inP1, running, cancelling, ownDone, doneOwed, csent, goSent, goGot, finPending, invFresh>>
              ELSE IF doneOwed > 0
              THEN doneOwed' = doneOwed - 1 /\ UNCHANGED <<skip, run, opts, inP1, running, cancelling, ownDone, doneSeen, csent, goSent, goGot, finPending, invFresh>>
              ELSE Bad("done.invoke-without-child-completion-or-twice")
         [] cb = "bPE" /\ IsChildEvent(a) ->
              IF a = "c.late" THEN Bad("event-sent-by-cancelled-child-reached-parent")
              ELSE IF csent = <<>> \/ Head(csent) # a THEN Bad("child-event-out-of-order-duplicated-or-never-sent")
              ELSE IF opts.finalize /\ ~finPending THEN Bad("child-event-processed-before-finalize")
              ELSE csent' = Tail(csent) /\ finPending' = FALSE
                   /\ UNCHANGED <<skip, run, opts, inP1, running, cancelling, ownDone, doneSeen, doneOwed, goSent, goGot, invFresh>>
         [] cb = "bEC" /\ a = "log:fin" ->
              IF ~opts.finalize THEN Bad("finalize-content-without-finalize")
              ELSE finPending' = TRUE /\ UNCHANGED <<skip, run, opts, inP1, running, cancelling, ownDone, doneSeen, doneOwed, csent, goSent, goGot, invFresh>>
         [] cb = "bEC" /\ a = "send:go" ->
              goSent' = goSent + 1 /\ UNCHANGED <<skip, run, opts, inP1, running, cancelling, ownDone, doneSeen, doneOwed, csent, goGot, finPending, invFresh>>
         [] OTHER -> skip' = FALSE /\ Keep
    /\ l' = l + 1

\* callbacks of the invoked session
IChild ==
    /\ Line.k = "ev" /\ Line.r = "C" /\ ~skip
    /\ LET cb == Line.cb
           a == Line.a
       IN
       IF ~running THEN Bad("child-session-active-outside-its-invocation")
       ELSE CASE cb = "bCO" ->
                   ownDone' = (IF cancelling THEN ownDone ELSE TRUE)
                   /\ UNCHANGED <<skip, run, opts, inP1, running, cancelling, doneSeen, doneOwed, csent, goSent, goGot, finPending, invFresh>>
              [] cb = "bEC" /\ a \in {"send:c.1", "send:c.2", "send:c.3", "send:c.pong", "send:c.fwd"} ->
                   \* sends of a child that is being cancelled are dropped by the parent queue gate
                   csent' = (IF cancelling THEN csent ELSE Append(csent, SubSeq(<<"c.1", "c.2", "c.3", "c.pong", "c.fwd">>,
                                 CHOOSE i \in 1..5 : <<"send:c.1", "send:c.2", "send:c.3", "send:c.pong", "send:c.fwd">>[i] = a,
                                 CHOOSE i \in 1..5 : <<"send:c.1", "send:c.2", "send:c.3", "send:c.pong", "send:c.fwd">>[i] = a)[1]))
                   /\ UNCHANGED <<skip, run, opts, inP1, running, cancelling, ownDone, doneSeen, doneOwed, goSent, goGot, finPending, invFresh>>
              [] cb = "bPE" /\ a = "go" ->
                   IF goGot + 1 > goSent THEN Bad("child-received-go-more-often-than-sent")
                   ELSE goGot' = goGot + 1 /\ UNCHANGED <<skip, run, opts, inP1, running, cancelling, ownDone, doneSeen, doneOwed, csent, goSent, finPending, invFresh>>
              [] cb = "bPE" /\ a = "ping" ->
                   IF ~opts.autoforward THEN Bad("event-forwarded-without-autoforward") ELSE skip' = FALSE /\ Keep
              [] OTHER -> skip' = FALSE /\ Keep
    /\ l' = l + 1

IDriver == /\ Line.k = "ev" /\ Line.r = "D" /\ ~skip /\ Keep /\ skip' = FALSE /\ l' = l + 1

\* end of the run: everything owed has arrived (the harness waits 120 ms after the last input)
IEnd == /\ Line.k = "end" /\ ~skip
        \* a child that completed on its own and was never cancelled owes its done event; for an invocation
        \* cancelled after the child's completion the event may or may not have been sent (the race may go either way)
        /\ LET owed == IF running /\ ownDone /\ ~doneSeen /\ ~cancelling THEN 1 ELSE 0
           IN  /\ (Line.exit # "ok" => Report([Verdict("run-ended-" \o Line.exit) EXCEPT !.action = "end"]))
               /\ (Line.exit = "ok" /\ owed > 0 => Report([Verdict("done.invoke-never-processed") EXCEPT !.action = "end"]))
               /\ (Line.exit = "ok" /\ csent # <<>> /\ running /\ ~cancelling =>
                       Report([Verdict("child-event-never-processed") EXCEPT !.action = "end"]))
        /\ skip' = TRUE /\ Keep /\ l' = l + 1

ISkip == /\ skip /\ Line.k \in {"ev", "end"}
         /\ (Line.k = "end" /\ Line.exit # "ok" => Report([Verdict("run-ended-" \o Line.exit) EXCEPT !.action = "end"]))
         /\ UNCHANGED <<skip>> /\ Keep /\ l' = l + 1

INext == l <= Len(Log) /\ (IReset \/ IParent \/ IChild \/ IDriver \/ IEnd \/ ISkip)
ISpec == IInit /\ [][INext]_tvars
Consumed == TLCGet("stats").diameter = Len(Log) + 1
=============================================================================
