----------------------------- MODULE DelayQueue -----------------------------
(***************************************************************************)
(* C09: delayed events -- BasicDelayedEventQueue (libevent timers, owned by *)
(* the map _callbackData under the recursive mutex Q) and InterpreterImpl's *)
(* bookkeeping _delayedEventTargets under the recursive mutex D.            *)
(*                                                                          *)
(* Timer thread, one callback per timer u (timerCallback):                  *)
(*   Fire        libevent starts the callback of an armed, due timer        *)
(*   CbLock      lock Q                                                     *)
(*   CbCheck     u not in _callbackData -> unlock, return                    *)
(*               else event_free(timer), unlock Q           (window opens)  *)
(*   CbReady     eventReady(): lock D, erase target, deliver, unlock D      *)
(*   CbErase     lock Q, erase _callbackData[u], unlock     (callback ends) *)
(* Interpreter thread, <cancel sendid=...> (InterpreterImpl::cancelDelayed):*)
(*   CnLockD     lock D                                                     *)
(*   CnLockQ     lock Q (BasicDelayedEventQueue::cancelDelayed)             *)
(*   CnFind      u not in _callbackData -> skip                             *)
(*   CnDel       event_del(timer): BLOCKS while the timer's callback runs   *)
(*               in the other thread (libevent, events without EV_FINALIZE) *)
(*   CnFree      event_free(timer), erase _callbackData[u], unlock Q        *)
(*   CnDone      erase target, unlock D                                     *)
(* Variant Repaired = TRUE: cancel CLAIMS the entry under Q (cancelling),    *)
(* releases Q, calls event_del() -- which may wait for a running callback;  *)
(* that callback sees the claim under Q and returns -- then frees the timer *)
(* and erases the entry under Q.  The callback erases its own entry under   *)
(* its first lock, so that a later cancel does not touch the freed timer.   *)
(***************************************************************************)
EXTENDS Integers, FiniteSets, TLC

CONSTANTS Timers, Repaired

VARIABLES tstate,     \* u -> "armed" | "running" | "freed" | "deleted"
          inmap,      \* u -> BOOLEAN : u is a key of _callbackData
          target,     \* u -> BOOLEAN : u is a key of _delayedEventTargets
          Q, D,       \* holders of the two mutexes: "none" | "T" | "I"
          cb,         \* the timer whose callback the timer thread is running, or "none"
          tpc,        \* timer thread: "idle" | "locked" | "window" | "ready" | "erase"
          cn,         \* the timer the interpreter thread is cancelling, or "none"
          ipc,        \* interpreter thread: "idle" | "lockedD" | "lockedQ" | "del" | "free" | "done"
          delivered,  \* u -> number of deliveries
          cancelled,  \* set of timers whose cancel completed while they were still armed
          bad,        \* set of violations observed: use-after-free
          cancelling  \* u -> BOOLEAN (Repaired only): a cancel has claimed the entry and is about to event_del()
vars == <<tstate, inmap, target, Q, D, cb, tpc, cn, ipc, delivered, cancelled, bad, cancelling>>

Init == /\ tstate = [u \in Timers |-> "armed"] /\ inmap = [u \in Timers |-> TRUE]
        /\ target = [u \in Timers |-> TRUE]
        /\ Q = "none" /\ D = "none" /\ cb = "none" /\ tpc = "idle" /\ cn = "none" /\ ipc = "idle"
        /\ delivered = [u \in Timers |-> 0] /\ cancelled = {} /\ bad = {}
        /\ cancelling = [u \in Timers |-> FALSE]

(* ---- timer thread ---- *)
Fire(u) == /\ tpc = "idle" /\ cb = "none" /\ tstate[u] = "armed"
           /\ cb' = u /\ tstate' = [tstate EXCEPT ![u] = "running"] /\ tpc' = "start"
           /\ UNCHANGED <<inmap, target, Q, D, cn, ipc, delivered, cancelled, bad, cancelling>>

CbLock == /\ tpc = "start" /\ Q = "none" /\ Q' = "T" /\ tpc' = "locked"
          /\ UNCHANGED <<tstate, inmap, target, D, cb, cn, ipc, delivered, cancelled, bad, cancelling>>

CbCheck == /\ tpc = "locked"
           /\ IF ~inmap[cb] \/ (Repaired /\ cancelling[cb])
              THEN \* the entry is gone, or a cancel has claimed it and waits in event_del() for us: return
                   /\ Q' = "none" /\ tpc' = "idle" /\ cb' = "none"
                   /\ tstate' = [tstate EXCEPT ![cb] = IF @ = "running" THEN "deleted" ELSE @]
                   /\ UNCHANGED inmap
              ELSE /\ tstate' = [tstate EXCEPT ![cb] = "freed"]      \* event_free(data->event)
                   /\ inmap' = IF Repaired THEN [inmap EXCEPT ![cb] = FALSE] ELSE inmap
                   /\ Q' = "none" /\ tpc' = "window" /\ UNCHANGED cb
           /\ UNCHANGED <<target, D, cn, ipc, delivered, cancelled, bad, cancelling>>

CbReady == /\ tpc = "window" /\ D = "none"
           /\ delivered' = [delivered EXCEPT ![cb] = @ + 1]
           /\ target' = [target EXCEPT ![cb] = FALSE]
           /\ tpc' = "erase"
           /\ UNCHANGED <<tstate, inmap, Q, D, cb, cn, ipc, cancelled, bad, cancelling>>

CbErase == /\ tpc = "erase" /\ Q = "none"
           /\ inmap' = [inmap EXCEPT ![cb] = FALSE]
           /\ tpc' = "idle" /\ cb' = "none"
           /\ UNCHANGED <<tstate, target, Q, D, cn, ipc, delivered, cancelled, bad, cancelling>>

(* ---- interpreter thread: cancel of timer u ---- *)
CnLockD(u) == /\ ipc = "idle" /\ cn = "none" /\ target[u] /\ D = "none"
              /\ D' = "I" /\ cn' = u /\ ipc' = "lockedD"
              /\ UNCHANGED <<tstate, inmap, target, Q, cb, tpc, delivered, cancelled, bad, cancelling>>

CnLockQ == /\ ipc = "lockedD" /\ Q = "none" /\ Q' = "I" /\ ipc' = "lockedQ"
           /\ UNCHANGED <<tstate, inmap, target, D, cb, tpc, cn, delivered, cancelled, bad, cancelling>>

CnFind == /\ ipc = "lockedQ"
          /\ IF ~inmap[cn] \/ (Repaired /\ cancelling[cn])
             THEN /\ Q' = "none" /\ ipc' = "done" /\ UNCHANGED <<inmap, D, cancelling>>
             ELSE IF Repaired
                  THEN \* claim the entry and release Q before touching libevent (D stays held)
                       /\ cancelling' = [cancelling EXCEPT ![cn] = TRUE]
                       /\ Q' = "none" /\ ipc' = "del" /\ UNCHANGED <<inmap, D>>
                  ELSE /\ ipc' = "del" /\ UNCHANGED <<inmap, Q, D, cancelling>>
          /\ UNCHANGED <<tstate, target, cb, tpc, cn, delivered, cancelled, bad>>

\* event_del(): waits for a running callback of this very timer; on a freed timer it is a use after free
CnDel == /\ ipc = "del"
         /\ ~(cb = cn /\ tstate[cn] = "running")
         /\ bad' = IF tstate[cn] = "freed" THEN bad \cup {<<"use-after-free", cn>>} ELSE bad
         /\ cancelled' = IF tstate[cn] = "armed" THEN cancelled \cup {cn} ELSE cancelled
         /\ tstate' = [tstate EXCEPT ![cn] = IF @ = "armed" THEN "deleted" ELSE @]
         /\ ipc' = "free"
         /\ UNCHANGED <<inmap, target, Q, D, cb, tpc, cn, delivered, cancelling>>

\* Repaired: take Q again to free the timer and erase the claimed entry
CnFree == /\ ipc = "free"
          /\ (Repaired => Q = "none")
          /\ inmap' = [inmap EXCEPT ![cn] = FALSE]
          /\ cancelling' = [cancelling EXCEPT ![cn] = FALSE]
          /\ Q' = "none" /\ ipc' = "done"
          /\ UNCHANGED <<tstate, target, D, cb, tpc, cn, delivered, cancelled, bad>>

CnRelock == /\ ipc = "relock" /\ D = "none" /\ D' = "I" /\ ipc' = "done"
            /\ UNCHANGED <<tstate, inmap, target, Q, cb, tpc, cn, delivered, cancelled, bad, cancelling>>

CnDone == /\ ipc = "done"
          /\ target' = [target EXCEPT ![cn] = FALSE]
          /\ D' = "none" /\ cn' = "none" /\ ipc' = "idle"
          /\ UNCHANGED <<tstate, inmap, Q, cb, tpc, delivered, cancelled, bad, cancelling>>

Next == \/ \E u \in Timers : Fire(u) \/ CnLockD(u)
        \/ CbLock \/ CbCheck \/ CbReady \/ CbErase
        \/ CnLockQ \/ CnFind \/ CnDel \/ CnFree \/ CnRelock \/ CnDone

Spec == Init /\ [][Next]_vars

(* ---- properties ---- *)
NoUseAfterFree == bad = {}
AtMostOnce == \A u \in Timers : delivered[u] <= 1
\* a cancel that completed while the timer was still armed wins
CancelWins == \A u \in cancelled : delivered[u] = 0
MutexSane == (tpc \in {"locked"} => Q = "T") /\ (ipc \in {"lockedQ"} => Q = "I")
\* no state in which both threads wait for each other: every non-final state has a successor
\* (checked by TLC's deadlock detection; quiescent states are those with both threads idle)
Quiescent == tpc = "idle" /\ ipc = "idle"
NoDeadlock == Quiescent \/ ENABLED Next
=============================================================================
