// xform: in-process driver for the transpilers (the CLI costs ~1 s per call because it
// starts an HTTP server).
//   xform <batch-file> <outdir>
// batch:  DOC <name> <backend:c|pml|vhdl> <nbytes>\n<nbytes of SCXML>\n ...
// writes <outdir>/<name>.<c|pml|vhdl> (and, with VERIF_ANNOT set, <name>.<backend>.annot: the annotated document); prints "OK <name>" / "FAIL <name> <why>" per document.
// Every document is transformed in a forked child: a crash is an outcome.
#include "uscxml/Interpreter.h"
#include "uscxml/transform/ChartToC.h"
#include "uscxml/transform/ChartToPromela.h"
#include "uscxml/transform/ChartToVHDL.h"
#include "uscxml/plugins/Factory.h"
#include "uscxml/util/DOM.h"
#include <fstream>
#include <iostream>
#include <sstream>
#include <unistd.h>
#include <sys/wait.h>
#include <signal.h>

using namespace uscxml;

static int doOne(const std::string& name, const std::string& backend, const std::string& scxml, const std::string& outdir) {
	try {
		Interpreter interp = Interpreter::fromXML(scxml, "file:///verif/" + name + ".scxml");
		if (!interp) return 3;
		Transformer t;
		if (backend == "c") t = ChartToC::transform(interp);
		else if (backend == "pml") t = ChartToPromela::transform(interp);
		else if (backend == "vhdl") t = ChartToVHDL::transform(interp);
		else return 4;
		std::ofstream out((outdir + "/" + name + "." + backend).c_str());
		t.writeTo(out);
		out.close();
		if (getenv("VERIF_ANNOT")) {
			// the document as annotated by the transformation (uscxml-transform -a)
			std::ofstream ann((outdir + "/" + name + "." + backend + ".annot").c_str());
			ann << (*t.getImpl()->getDocument());
			ann.close();
		}
		return 0;
	} catch (Event e) {
		std::cerr << "Event " << e.name << std::endl;
		return 5;
	} catch (std::exception& e) {
		std::cerr << "exception " << e.what() << std::endl;
		return 6;
	} catch (...) {
		return 7;
	}
}

int main(int argc, char** argv) {
	if (argc < 3) { fprintf(stderr, "usage: xform <batch> <outdir>\n"); return 2; }
	std::ifstream in(argv[1], std::ios::binary);
	std::string outdir = argv[2];
	if (!getenv("VERIF_KEEP_CACHE")) setenv("USCXML_NOCACHE_FILES", "YES", 1);
	Factory::getInstance();
	std::string line;
	while (std::getline(in, line)) {
		if (line.compare(0, 4, "DOC ") != 0) continue;
		std::istringstream hs(line.substr(4));
		std::string name, backend;
		size_t nbytes;
		hs >> name >> backend >> nbytes;
		std::string scxml(nbytes, ' ');
		in.read(&scxml[0], nbytes);
		fflush(stdout);
		pid_t pid = fork();
		if (pid == 0) {
			FILE* devnull = fopen("/dev/null", "w");
			if (devnull) { dup2(fileno(devnull), 1); dup2(fileno(devnull), 2); }
			alarm(30);
			_exit(doOne(name, backend, scxml, outdir));
		}
		int status = 0;
		waitpid(pid, &status, 0);
		if (WIFSIGNALED(status)) printf("FAIL %s signal %d\n", name.c_str(), WTERMSIG(status));
		else if (WEXITSTATUS(status) != 0) printf("FAIL %s exit %d\n", name.c_str(), WEXITSTATUS(status));
		else printf("OK %s\n", name.c_str());
	}
	return 0;
}
