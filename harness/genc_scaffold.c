/* genc_scaffold.c: drives ONE machine emitted by `uscxml-transform -tc` and records its run as
 * ndjson trace lines (DESIGN.md 4.1, C04).  Compiled once per chart:
 *
 *   gcc -DMACHINE_FILE='"m.c"' -DEXPRS_FILE='"m_exprs.h"' genc_scaffold.c -o m
 *   ./m <mode:drip|preload> <event>...
 *
 * MACHINE_FILE is the emitted code, compiled WITH THE SIZING MACROS THE GENERATOR EMITS.
 * EXPRS_FILE is written by gen/ from the abstract chart: every expression text that occurs in
 * the document with a C function computing it (the scaffold never parses expression text),
 * the variables, and the id of every state.
 *
 * The uscxml_ctx is placed between two guard areas which are checked after every step.
 */
#include <stdio.h>
#include <stdlib.h>
#include <string.h>

#include MACHINE_FILE

/* ---- variables and expressions of this chart (generated) -------------------------- */
#define MAXV 8
static long V[MAXV];
static int  VDEF[MAXV];
static const uscxml_ctx* CUR;

static int in_state(const char* id) {
	size_t i;
	for (i = 0; i < CUR->machine->nr_states; i++) {
		if (CUR->machine->states[i].name && strcmp(CUR->machine->states[i].name, id) == 0)
			return BIT_HAS(i, CUR->config) ? 1 : 0;
	}
	return 0;
}
#define IN(id) in_state(id)

/* expression evaluation can fail: reading an unbound variable */
static int EVAL_ERR;
static long RD(int i) { if (!VDEF[i]) EVAL_ERR = 1; return V[i]; }

typedef long (*expr_fn)(void);
struct expr { const char* text; int kind; expr_fn fn; };   /* kind: 0 int, 1 bool, 2 always fails */
struct varname { const char* name; int idx; };

#include EXPRS_FILE
/* EXPRS_FILE defines: static const struct expr EXPRS[]; static const int NEXPRS;
 *                     static const struct varname VARS[]; static const int NVARS;   */

static const struct expr* find_expr(const char* text) {
	int i;
	for (i = 0; i < NEXPRS; i++)
		if (strcmp(EXPRS[i].text, text) == 0) return &EXPRS[i];
	return NULL;
}
static int find_var(const char* name) {
	int i;
	for (i = 0; i < NVARS; i++)
		if (strcmp(VARS[i].name, name) == 0) return VARS[i].idx;
	return -1;
}

/* ---- queues --------------------------------------------------------------------------- */
#define QMAX 8192
struct queue { char* ev[QMAX]; int head, tail; };
static struct queue IQ, EQ;
static void qpush(struct queue* q, const char* name) {
	if (q->tail - q->head >= QMAX - 1) { fprintf(stderr, "queue overflow\n"); exit(3); }
	q->ev[q->tail++ % QMAX] = strdup(name);
}
static char* qpop(struct queue* q) {
	if (q->head == q->tail) return NULL;
	return q->ev[q->head++ % QMAX];
}

/* ---- atoms ---------------------------------------------------------------------------- */
static char ATOMS[1 << 16];
static size_t ALEN;
static void atom_tokens(const char* a, const char* name, long v) {
	/* {"a":a,"x":[tokens of name split at '.'],"v":v} */
	const char* p = name;
	ALEN += snprintf(ATOMS + ALEN, sizeof ATOMS - ALEN, "%s{\"a\":\"%s\",\"x\":[", ALEN ? "," : "", a);
	if (*p) {
		int first = 1;
		while (1) {
			const char* dot = strchr(p, '.');
			size_t n = dot ? (size_t)(dot - p) : strlen(p);
			ALEN += snprintf(ATOMS + ALEN, sizeof ATOMS - ALEN, "%s\"%.*s\"", first ? "" : ",", (int)n, p);
			first = 0;
			if (!dot) break;
			p = dot + 1;
		}
	}
	ALEN += snprintf(ATOMS + ALEN, sizeof ATOMS - ALEN, "],\"v\":%ld}", v);
}
static void atom_label(const char* a, const char* label, long v) {
	ALEN += snprintf(ATOMS + ALEN, sizeof ATOMS - ALEN, "%s{\"a\":\"%s\",\"x\":[\"%s\"],\"v\":%ld}", ALEN ? "," : "", a, label, v);
}

static void raise_error(const char* name) {
	qpush(&IQ, name);
	atom_tokens("raise", name, 0);
}

/* ---- callbacks ------------------------------------------------------------------------ */
static void* dequeue_internal(const uscxml_ctx* ctx) {
	char* e = qpop(&IQ);
	if (e) atom_tokens("deq", e, 0);
	return e;
}
static void* dequeue_external(const uscxml_ctx* ctx) {
	char* e = qpop(&EQ);
	if (e) atom_tokens("deq", e, 1);
	return e;
}

/* Rec. 3.12.1 on token boundaries; the scaffold's own matcher (C12 checks the shipped ones) */
static int desc_matches(const char* d, size_t dl, const char* name) {
	size_t nl = strlen(name);
	if (dl >= 2 && d[dl - 1] == '*' && d[dl - 2] == '.') dl -= 2;
	else if (dl == 1 && d[0] == '*') return 1;
	if (dl >= 1 && d[dl - 1] == '.') dl -= 1;
	if (dl == 0) return 1;
	if (dl > nl) return 0;
	if (strncmp(d, name, dl) != 0) return 0;
	return name[dl] == 0 || name[dl] == '.';
}
static int is_matched(const uscxml_ctx* ctx, const uscxml_transition* t, const void* e) {
	const char* p = t->event;
	const char* name = (const char*)e;
	while (*p) {
		const char* q;
		while (*p == ' ' || *p == '\t' || *p == '\n') p++;
		if (!*p) break;
		q = p;
		while (*q && *q != ' ' && *q != '\t' && *q != '\n') q++;
		if (desc_matches(p, (size_t)(q - p), name)) return 1;
		p = q;
	}
	return 0;
}

static int eval_expr(const char* text, long* out) {
	const struct expr* e = find_expr(text);
	if (e == NULL) { fprintf(stderr, "scaffold: unknown expression '%s'\n", text); exit(4); }
	if (e->kind == 2) return 0;
	EVAL_ERR = 0;
	*out = e->fn();
	return !EVAL_ERR;
}

static int is_true(const uscxml_ctx* ctx, const char* expr) {
	long v = 0;
	CUR = ctx;
	if (!eval_expr(expr, &v)) { raise_error("error.execution"); return 0; }
	return v != 0;
}

static int raise_done_event(const uscxml_ctx* ctx, const uscxml_state* state, const uscxml_elem_donedata* donedata) {
	char buf[256];
	snprintf(buf, sizeof buf, "done.state.%s", state->name ? state->name : "?");
	qpush(&IQ, buf);
	atom_tokens("raise", buf, 0);
	return USCXML_ERR_OK;
}

static int exec_content_log(const uscxml_ctx* ctx, const char* label, const char* expr) {
	long v = 0;
	CUR = ctx;
	if (expr != NULL && !eval_expr(expr, &v)) { raise_error("error.execution"); return USCXML_ERR_EXEC_CONTENT; }
	atom_label("log", label ? label : "", v);
	return USCXML_ERR_OK;
}

static int exec_content_raise(const uscxml_ctx* ctx, const char* event) {
	qpush(&IQ, event);
	atom_tokens("raise", event, 0);
	return USCXML_ERR_OK;
}

static int exec_content_send(const uscxml_ctx* ctx, const uscxml_elem_send* send) {
	if (send->type != NULL && strcmp(send->type, "http://www.w3.org/TR/scxml/#SCXMLEventProcessor") != 0) {
		raise_error("error.execution");            /* unsupported type */
		return USCXML_ERR_INVALID_TYPE;
	}
	if (send->target != NULL && send->target[0] != 0) {
		if (send->target[0] != '#' || send->target[1] != '_') {
			raise_error("error.execution");        /* not a target of the SCXML i/o processor */
			return USCXML_ERR_INVALID_TARGET;
		}
		raise_error("error.communication");        /* a session that does not exist */
		return USCXML_ERR_INVALID_TARGET;
	}
	qpush(&EQ, send->event);
	atom_tokens("send", send->event, 0);
	return USCXML_ERR_OK;
}

static int exec_content_assign(const uscxml_ctx* ctx, const uscxml_elem_assign* assign) {
	long v = 0;
	int idx = find_var(assign->location);
	CUR = ctx;
	if (idx < 0 || !VDEF[idx] || assign->expr == NULL || !eval_expr(assign->expr, &v)) {
		raise_error("error.execution");
		return USCXML_ERR_EXEC_CONTENT;
	}
	V[idx] = v;
	return USCXML_ERR_OK;
}

/* called once per state with a NULL-terminated block of <data> elements */
static int exec_content_init(const uscxml_ctx* ctx, const uscxml_elem_data* data) {
	CUR = ctx;
	while (USCXML_ELEM_DATA_IS_SET(data)) {
		long v = 0;
		int idx = find_var(data->id);
		if (idx < 0) { fprintf(stderr, "scaffold: unknown variable '%s'\n", data->id); exit(4); }
		if (data->expr == NULL || !eval_expr(data->expr, &v)) {
			VDEF[idx] = 0;
			raise_error("error.execution");
		} else {
			V[idx] = v;
			VDEF[idx] = 1;
		}
		data++;
	}
	return USCXML_ERR_OK;
}

static int exec_content_cancel(const uscxml_ctx* ctx, const char* sendid, const char* sendidexpr) {
	return USCXML_ERR_OK;
}

/* ---- the context between two guard areas -------------------------------------------------- */
#define GUARD 64
static struct { unsigned char before[GUARD]; uscxml_ctx ctx; unsigned char after[GUARD]; } BOX;

static int guards_ok(void) {
	int i;
	for (i = 0; i < GUARD; i++)
		if (BOX.before[i] != 0xA5 || BOX.after[i] != 0x5A) return 0;
	return 1;
}

static const char* retname(int r) {
	switch (r) {
	case USCXML_ERR_OK: return "OK";
	case USCXML_ERR_IDLE: return "IDLE";
	case USCXML_ERR_DONE: return "DONE";
	default: return "ERR";
	}
}

static const char* json_tokens(const char* name) {
	static char buf[600];
	size_t n = 0;
	const char* p = name;
	int first = 1;
	n += snprintf(buf + n, sizeof buf - n, "[");
	while (*p) {
		const char* dot = strchr(p, '.');
		size_t l = dot ? (size_t)(dot - p) : strlen(p);
		n += snprintf(buf + n, sizeof buf - n, "%s\"%.*s\"", first ? "" : ",", (int)l, p);
		first = 0;
		if (!dot) break;
		p = dot + 1;
	}
	snprintf(buf + n, sizeof buf - n, "]");
	return buf;
}

static void emit(const char* op, const char* arg, const char* ret) {
	size_t i;
	int first = 1;
	printf("{\"k\":\"call\",\"op\":\"%s\",\"arg\":%s,\"ret\":\"%s\",\"atoms\":[%s],\"cfg\":[", op, arg, ret, ATOMS);
	for (i = 0; i < BOX.ctx.machine->nr_states; i++) {
		if (BIT_HAS(i, BOX.ctx.config)) {
			const char* n = BOX.ctx.machine->states[i].name;
			printf("%s\"%s\"", first ? "" : ",", n ? n : (i == 0 ? "s1" : "?"));
			first = 0;
		}
	}
	printf("]}\n");
	ATOMS[0] = 0;
	ALEN = 0;
}

int main(int argc, char** argv) {
	int preload, wi = 2, steps = 0, maxsteps = 40, idles = 0, dones = 0, r = 0, i;
	const char* ms = getenv("VERIF_MAXSTEPS");
	if (argc < 2) return 2;
	if (ms) maxsteps = atoi(ms);
	preload = strcmp(argv[1], "preload") == 0;
	memset(&BOX, 0, sizeof BOX);
	memset(BOX.before, 0xA5, GUARD);
	memset(BOX.after, 0x5A, GUARD);
	BOX.ctx.machine = &USCXML_MACHINE;
	BOX.ctx.dequeue_internal = dequeue_internal;
	BOX.ctx.dequeue_external = dequeue_external;
	BOX.ctx.is_matched = is_matched;
	BOX.ctx.is_true = is_true;
	BOX.ctx.raise_done_event = raise_done_event;
	BOX.ctx.exec_content_log = exec_content_log;
	BOX.ctx.exec_content_raise = exec_content_raise;
	BOX.ctx.exec_content_send = exec_content_send;
	BOX.ctx.exec_content_assign = exec_content_assign;
	BOX.ctx.exec_content_init = exec_content_init;
	BOX.ctx.exec_content_cancel = exec_content_cancel;
	ATOMS[0] = 0;

	while (steps < maxsteps) {
		r = uscxml_step(&BOX.ctx);
		steps++;
		if (!guards_ok()) { printf("{\"k\":\"note\",\"msg\":\"guard area around uscxml_ctx overwritten\"}\n"); fflush(stdout); abort(); }
		emit("step", "[]", retname(r));
		if (preload && steps == 1) {
			/* all events are handed over right after the first step (the queue belongs to the scaffold) */
			for (; wi < argc; wi++) {
				qpush(&EQ, argv[wi]);
				emit("receive", json_tokens(argv[wi]), "-");
			}
		}
		if (r == USCXML_ERR_DONE) { if (++dones > 1) break; continue; }
		if (r == USCXML_ERR_IDLE) {
			if (wi < argc) {
				qpush(&EQ, argv[wi]);
				emit("receive", json_tokens(argv[wi]), "-");
				wi++;
			} else if (++idles > 1) break;
		}
		if (r != USCXML_ERR_OK && r != USCXML_ERR_IDLE && r != USCXML_ERR_DONE) break;
	}
	printf("{\"k\":\"end\",\"steps\":%d,\"dm\":[", steps);
	for (i = 0; i < NVARS; i++)
		printf("%s{\"n\":\"%s\",\"def\":%s,\"v\":%ld}", i ? "," : "", VARS[i].name, VDEF[VARS[i].idx] ? "true" : "false", VDEF[VARS[i].idx] ? V[VARS[i].idx] : 0L);
	printf("],\"last\":\"%s\",\"limit\":%s", retname(r), steps >= maxsteps ? "true" : "false");
	fflush(stdout);
	return 0;
}
