// mt_teardown: C10 concurrent half -- destroying / resetting an interpreter returns in bounded time.
//
//   mt_teardown <out.ndjson> <cycles> <seed> <mode:random|forced>
//
// Every cycle is a forked child with a watchdog: create an interpreter (default components),
// step it k times, destroy it (timer thread: BasicDelayedEventQueue::stop()).
//   random : seeded random delays at the hook points dq.run.tested / dq.stop.before_break
//   forced : the schedule of Teardown.tla's counterexample -- the timer thread is parked at
//            dq.run.tested (between its test of _isStarted and event_base_loop) until stop() has
//            passed dq.stop.before_break and requested the loop break, then released.
// Output: {"k":"cycle","n":i,"steps":k,"mode":..,"exit":"ok"|"timeout"|"signal n"}
#include "uscxml/Interpreter.h"
#include "uscxml/util/VerifHooks.h"
#include "uscxml/plugins/Factory.h"

#include <atomic>
#include <thread>
#include <cstdio>
#include <cstdlib>
#include <cstring>
#include <unistd.h>
#include <signal.h>
#include <sys/wait.h>

using namespace uscxml;

static std::atomic<int> stopping(0);
static std::atomic<int> parked(0);
static bool FORCED = false;
static unsigned SEED = 1;

static unsigned rnd(unsigned salt) {
	static thread_local unsigned ctr = 0;
	unsigned x = SEED * 2654435761u + salt * 40503u + (++ctr) * 2246822519u;
	x ^= x >> 15; x *= 2246822519u; x ^= x >> 13;
	return x;
}

static void hook(const char* point, const void*) {
	if (getenv("VERIF_DEBUG")) { char b[128]; int n = snprintf(b, sizeof b, "HOOK %s parked=%d stopping=%d\n", point, parked.load(), stopping.load()); if (write(9, b, n)) {} }
	if (strcmp(point, "dq.run.tested") == 0) {
		if (FORCED) {
			// park until stop() is past its break request (bounded: a run that is never stopped goes on)
			parked = 1;
			for (int i = 0; i < 3000 && !stopping.load(); i++) usleep(100);
			if (stopping.load()) usleep(3000);   // let event_base_loopbreak() happen first
			parked = 0;
		} else {
			unsigned x = rnd(1);
			if ((x & 3) == 0) usleep(x % 300);
		}
	} else if (strcmp(point, "dq.stop.before_break") == 0) {
		if (FORCED) {
			for (int i = 0; i < 500 && !parked.load(); i++) usleep(100);   // wait for the timer thread to be in the window
			stopping = 1;
		} else {
			unsigned x = rnd(2);
			if ((x & 3) == 0) usleep(x % 300);
		}
	}
}

static const char* DOC =
    "<scxml xmlns=\"http://www.w3.org/2005/07/scxml\" version=\"1.0\" datamodel=\"null\">"
    "<state id=\"a\"><transition event=\"e\" target=\"b\"/></state><state id=\"b\"/></scxml>";

static void cycle(int steps) {
	setenv("USCXML_NOCACHE_FILES", "YES", 1);
	FILE* devnull = fopen("/dev/null", "w");
	if (devnull) { dup2(fileno(devnull), 1); dup2(fileno(devnull), 2); }
	uscxml::verifHook() = hook;
	{
		Interpreter interp = Interpreter::fromXML(DOC, "file:///verif/td.scxml");
		for (int i = 0; i < steps; i++) interp.step(0);
		if (FORCED) {
			// the window of Teardown.tla's counterexample: the timer thread has tested _isStarted and
			// not yet entered event_base_loop() (it is parked there by the hook)
			for (int i = 0; i < 2000 && !parked.load(); i++) usleep(100);
		}
		// destruction at scope exit
	}
	_exit(0);
}

int main(int argc, char** argv) {
	if (argc < 5) { fprintf(stderr, "usage: mt_teardown <out> <cycles> <seed> <random|forced>\n"); return 2; }
	FILE* out = fopen(argv[1], "w");
	int cycles = atoi(argv[2]);
	unsigned seed = (unsigned)atoi(argv[3]);
	FORCED = strcmp(argv[4], "forced") == 0;
	// (no library call in the parent: the children must not inherit locks or half-initialised singletons)
	for (int n = 1; n <= cycles; n++) {
		int steps = 1 + (n % 6);
		pid_t pid = fork();
		if (pid == 0) {
			SEED = seed * 7919u + (unsigned)n;
			alarm(4);
			cycle(steps);
		}
		int status = 0;
		waitpid(pid, &status, 0);
		const char* ex = "ok";
		char buf[64];
		if (WIFSIGNALED(status)) {
			if (WTERMSIG(status) == SIGALRM) ex = "timeout";
			else { snprintf(buf, sizeof buf, "signal %d", WTERMSIG(status)); ex = buf; }
		} else if (WEXITSTATUS(status) != 0) { snprintf(buf, sizeof buf, "exit %d", WEXITSTATUS(status)); ex = buf; }
		fprintf(out, "{\"k\":\"cycle\",\"n\":%d,\"steps\":%d,\"mode\":\"%s\",\"exit\":\"%s\"}\n", n, steps, argv[4], ex);
		fflush(out);
	}
	fclose(out);
	return 0;
}
