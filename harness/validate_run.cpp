// validate_run: C19 -- validate() verdicts, and what happens when a document without fatal
// issues is run and transpiled.
//   validate_run <batch> <out.ndjson>
// batch: DOC <name> <nbytes>\n<scxml>\n ...
// per document one line:
//   {"k":"doc","name":..,"fatal":n,"warn":n,"info":n,"syntax":n,"issues":[[sev,msg]..],
//    "validate":"ok|signal n|timeout|exception","run":"ok|skipped|signal n|timeout|exception|init-failed",
//    "c":"ok|...","pml":"ok|...","vhdl":"ok|..."}
// validate, run (50 steps) and each transformation happen in separate forked children.
#include "uscxml/Interpreter.h"
#include "uscxml/debug/InterpreterIssue.h"
#include "uscxml/transform/ChartToC.h"
#include "uscxml/transform/ChartToPromela.h"
#include "uscxml/transform/ChartToVHDL.h"
#include "uscxml/plugins/Factory.h"
#include "uscxml/interpreter/InterpreterImpl.h"
#include "uscxml/util/DOM.h"
#include <algorithm>
#include <list>
#include <set>
#include <vector>
#include <fstream>
#include <iostream>
#include <sstream>
#include <string>
#include <unistd.h>
#include <signal.h>
#include <sys/wait.h>

using namespace uscxml;

static std::string jesc(const std::string& s) {
	std::string o;
	for (unsigned char c : s) {
		if (c == '"' || c == '\\') { o += '\\'; o += c; }
		else if (c < 0x20) { o += ' '; }
		else o += c;
	}
	return o;
}

// run `what` in a child; returns "ok" / "exit n" / "signal n" / "timeout"; child output (one line) in `payload`
template <class F>
static std::string inChild(F what, std::string& payload) {
	int pfd[2];
	if (pipe(pfd)) return "pipe";
	pid_t pid = fork();
	if (pid == 0) {
		close(pfd[0]);
		FILE* devnull = fopen("/dev/null", "w");
		if (devnull) { dup2(fileno(devnull), 1); dup2(fileno(devnull), 2); }
		alarm(20);
		std::string out;
		int rc = what(out);
		if (write(pfd[1], out.data(), out.size())) {}
		_exit(rc);
	}
	close(pfd[1]);
	char tmp[65536];
	ssize_t n;
	payload.clear();
	while ((n = read(pfd[0], tmp, sizeof tmp)) > 0) payload.append(tmp, n);
	close(pfd[0]);
	int status = 0;
	waitpid(pid, &status, 0);
	if (WIFSIGNALED(status)) return WTERMSIG(status) == SIGALRM ? "timeout" : "signal " + std::to_string(WTERMSIG(status));
	if (WEXITSTATUS(status) == 0) return "ok";
	if (WEXITSTATUS(status) == 7) return "exception";
	if (WEXITSTATUS(status) == 8) return "init-failed";
	return "exit " + std::to_string(WEXITSTATUS(status));
}

int main(int argc, char** argv) {
	if (argc < 3) return 2;
	std::ifstream in(argv[1], std::ios::binary);
	FILE* out = fopen(argv[2], "w");
	setenv("USCXML_NOCACHE_FILES", "YES", 1);
	std::string line;
	while (std::getline(in, line)) {
		if (line.compare(0, 4, "DOC ") != 0) continue;
		std::istringstream hs(line.substr(4));
		std::string name;
		size_t nbytes;
		hs >> name >> nbytes;
		std::string scxml(nbytes, ' ');
		in.read(&scxml[0], nbytes);
		std::string url = "file:///verif/" + name + ".scxml";

		std::string issues;
		std::string v = inChild([&](std::string& o) -> int {
			try {
				Interpreter interp = Interpreter::fromXML(scxml, url);
				if (!interp) return 8;
				std::list<InterpreterIssue> is = interp.validate();
				int f = 0, w = 0, i = 0, syn = 0;
				std::string list;
				for (auto& x : is) {
					if (x.severity == InterpreterIssue::USCXML_ISSUE_FATAL) f++;
					else if (x.severity == InterpreterIssue::USCXML_ISSUE_WARNING) w++;
					else i++;
					if (x.message.find("yntax error") != std::string::npos) syn++;
					if (list.size() < 1500) list += std::string(list.size() ? "," : "") + "[" + std::to_string((int)x.severity) + ",\"" + jesc(x.message.substr(0, 120)) + "\"]";
				}
				o = "\"fatal\":" + std::to_string(f) + ",\"warn\":" + std::to_string(w) + ",\"info\":" + std::to_string(i) + ",\"syntax\":" + std::to_string(syn) + ",\"issues\":[" + list + "]";
				return 0;
			} catch (...) { return 7; }
		}, issues);
		if (v != "ok") issues = "\"fatal\":-1,\"warn\":0,\"info\":0,\"syntax\":0,\"issues\":[]";
		bool nofatal = (v == "ok" && issues.find("\"fatal\":0,") == 0);

		std::string dummy;
		std::string cfgs;      // the configurations the run went through: json lists of state ids ("#root" for <scxml>)
		std::string run = "skipped", c = "skipped", pml = "skipped", vhdl = "skipped";
		if (nofatal) {
			run = inChild([&](std::string& o) -> int {
				try {
					// never destroyed: tear-down is not this check's subject (the child _exit()s)
					Interpreter& interp = *(new Interpreter(Interpreter::fromXML(scxml, url)));
					if (!interp) return 8;
					// events the document reacts to, in document order
					std::vector<std::string> events;
					for (auto t : DOMUtils::inDocumentOrder({"transition"}, interp.getImpl()->getDocument()->getDocumentElement())) {
						if (!HAS_ATTR(t, X("event"))) continue;
						std::string d = ATTR(t, X("event"));
						d = d.substr(0, d.find(' '));
						while (d.size() && (d.back() == '*' || d.back() == '.')) d.pop_back();
						if (d.size() && std::find(events.begin(), events.end(), d) == events.end() && events.size() < 6) events.push_back(d);
					}
					std::set<std::string> seen;
					size_t next = 0;
					int n = 0;
					for (int i = 0; i < 120; i++) {
						InterpreterState st = interp.step(0);
						if (st != USCXML_INITIALIZED && st != USCXML_INSTANTIATED) {
							std::string cfg = "[";
							bool first = true;
							for (auto e : interp.getConfiguration()) {
								cfg += std::string(first ? "" : ",") + "\"" + (HAS_ATTR(e, X("id")) ? jesc(ATTR(e, X("id"))) : std::string(LOCALNAME(e) == "scxml" ? "#root" : "#anon")) + "\"";
								first = false;
							}
							cfg += "]";
							if (seen.insert(cfg).second && n < 24) { o += std::string(n ? "," : "") + cfg; n++; }
						}
						if (st == USCXML_FINISHED) break;
						if (st == USCXML_IDLE) {
							if (next >= events.size()) break;
							interp.receive(Event(events[next++], Event::EXTERNAL));
						}
					}
					return 0;
				} catch (...) { return 7; }
				return 0;
			}, cfgs);
			const char* bes[] = {"c", "pml", "vhdl"};
			std::string* res[] = {&c, &pml, &vhdl};
			for (int b = 0; b < 3; b++) {
				std::string be = bes[b];
				*res[b] = inChild([&](std::string&) -> int {
					try {
						Interpreter interp = Interpreter::fromXML(scxml, url);
						if (!interp) return 8;
						Transformer t;
						if (be == "c") t = ChartToC::transform(interp);
						else if (be == "pml") t = ChartToPromela::transform(interp);
						else t = ChartToVHDL::transform(interp);
						std::ostringstream os;
						t.writeTo(os);
						_exit(os.str().size() > 0 ? 0 : 9);
					} catch (...) { return 7; }
					return 0;
				}, dummy);
			}
		}
		fprintf(out, "{\"k\":\"doc\",\"name\":\"%s\",%s,\"validate\":\"%s\",\"run\":\"%s\",\"cfgs\":[%s],\"c\":\"%s\",\"pml\":\"%s\",\"vhdl\":\"%s\"}\n",
		        name.c_str(), issues.c_str(), v.c_str(), run.c_str(), run == "ok" ? cfgs.c_str() : "", c.c_str(), pml.c_str(), vhdl.c_str());
		fflush(out);
	}
	fclose(out);
	return 0;
}
