// json_replay: C15 -- Data <-> JSON round trip and parser robustness.
//   json_replay rt <values.txt>       lines: token stream of one Data value
//        A V <hex>|-     VERBATIM atom        A I <hex>     INTERPRETED atom
//        L <n> <item>*n  array                M <n> (K <hex>|- <item>)*n   map
//     prints "RT <line> ok" or "RT <line> NE <hex of json text>" ; also the Event round trip ("EV ...")
//   json_replay parse <inputs.txt>    lines: hex-encoded byte strings handed to Data::fromJSON
//     prints "P <n> ok|throw"; every chunk runs in a forked child: a crash / sanitizer abort is reported
//     as "P <n> CRASH <status>" and the chunk continues after it.
// Built twice: plain, and with -fsanitize=address,undefined together with Data.cpp and jsmn.c
// (so that the parser itself is instrumented).
#include "uscxml/messages/Data.h"
#include "uscxml/messages/Event.h"
#include <cstdio>
#include <cstdlib>
#include <cstring>
#include <fstream>
#include <iostream>
#include <sstream>
#include <string>
#include <vector>
#include <unistd.h>
#include <signal.h>
#include <sys/wait.h>

using namespace uscxml;

static std::string unhex(const std::string& h) {
	if (h == "-") return "";
	std::string o;
	for (size_t i = 0; i + 1 < h.size(); i += 2) o += (char)strtol(h.substr(i, 2).c_str(), NULL, 16);
	return o;
}
static std::string hex(const std::string& s) {
	static const char* d = "0123456789abcdef";
	std::string o;
	for (unsigned char c : s) { o += d[c >> 4]; o += d[c & 15]; }
	return o.size() ? o : "-";
}

static Data build(std::istringstream& in) {
	std::string tok;
	in >> tok;
	if (tok == "A") {
		std::string ty, h;
		in >> ty >> h;
		return Data(unhex(h), ty == "V" ? Data::VERBATIM : Data::INTERPRETED);
	}
	if (tok == "L") {
		int n; in >> n;
		Data d;
		for (int i = 0; i < n; i++) d.array.push_back(build(in));
		return d;
	}
	if (tok == "M") {
		int n; in >> n;
		Data d;
		for (int i = 0; i < n; i++) {
			std::string k, h;
			in >> k >> h;
			d.compound[unhex(h)] = build(in);
		}
		return d;
	}
	fprintf(stderr, "bad token %s\n", tok.c_str());
	exit(4);
}

static int rtMode(const char* file) {
	std::ifstream in(file);
	std::string line;
	long n = 0;
	while (std::getline(in, line)) {
		n++;
		std::istringstream is(line);
		Data d = build(is);
		std::string j;
		try {
			j = Data::toJSON(d);
			Data d2 = Data::fromJSON(j);
			if (d == d2) printf("RT %ld ok\n", n);
			else printf("RT %ld NE %s\n", n, hex(j).c_str());
		} catch (...) {
			printf("RT %ld THROW %s\n", n, hex(j).c_str());
		}
		try {
			Event e("some.event", Event::EXTERNAL);
			e.data = d;
			e.sendid = "sid";
			e.origin = "#_scxml_x";
			Data asData = e;
			Event e2 = Event::fromData(asData);
			if (e2.name == e.name && e2.data == e.data && e2.sendid == e.sendid && e2.origin == e.origin) printf("EV %ld ok\n", n);
			else printf("EV %ld NE %s\n", n, hex(Data::toJSON(asData)).c_str());
		} catch (...) {
			printf("EV %ld THROW -\n", n);
		}
	}
	printf("DONE %ld\n", n);
	return 0;
}

static int parseMode(const char* file) {
	std::ifstream in(file);
	std::vector<std::string> v;
	std::string line;
	while (std::getline(in, line)) v.push_back(unhex(line));
	size_t from = 0;
	long crashes = 0;
	while (from < v.size()) {
		int pfd[2];
		if (pipe(pfd)) return 2;
		pid_t pid = fork();
		if (pid == 0) {
			close(pfd[0]);
			FILE* out = fdopen(pfd[1], "w");
			FILE* devnull = fopen("/dev/null", "w");
			if (devnull) { dup2(fileno(devnull), 2); }
			alarm(60);
			for (size_t i = from; i < v.size(); i++) {
				fprintf(out, "B %zu\n", i);
				fflush(out);
				const char* r = "ok";
				try { Data d = Data::fromJSON(v[i]); (void)d; } catch (...) { r = "throw"; }
				fprintf(out, "P %zu %s\n", i, r);
				fflush(out);
			}
			_exit(0);
		}
		close(pfd[1]);
		FILE* r = fdopen(pfd[0], "r");
		char buf[256];
		size_t begun = from, done = from;
		bool open = false;
		while (fgets(buf, sizeof buf, r)) {
			if (buf[0] == 'B') { begun = strtoul(buf + 2, NULL, 10); open = true; }
			else if (buf[0] == 'P') { open = false; done = strtoul(buf + 2, NULL, 10) + 1; fputs(buf, stdout); }
		}
		fclose(r);
		int status = 0;
		waitpid(pid, &status, 0);
		if (open) {
			printf("P %zu CRASH %d\n", begun, WIFSIGNALED(status) ? 1000 + WTERMSIG(status) : WEXITSTATUS(status));
			crashes++;
			from = begun + 1;
		} else {
			from = done > from ? done : v.size();
		}
	}
	printf("DONE %zu %ld\n", v.size(), crashes);
	return 0;
}

int main(int argc, char** argv) {
	if (argc < 3) return 2;
	if (!strcmp(argv[1], "rt")) return rtMode(argv[2]);
	if (!strcmp(argv[1], "parse")) return parseMode(argv[2]);
	return 2;
}
