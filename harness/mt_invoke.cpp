// mt_invoke: C11 -- invoked sessions start, communicate and stop as specified.
//
//   mt_invoke <out.ndjson> <runs> <seed>
//
// Every run (forked child, watchdog) takes one combination of
//   child   : A finishes at once | B finishes after three "go" events | C never finishes
//   options : autoforward, finalize
//   script  : a word over the parent's external events {fwd, leave, back, ping} with seeded pauses
// and records, under one lock and with one sequence, the monitor callbacks of the parent session
// and of the invoked session (the monitor is copied to invokers):
//   {"k":"ev","r":"P"|"C","cb":<callback>,"a":<argument>}
// The parent document:
//   p1 --leave--> p2 --back--> p1 ;  p1 --done.invoke.K--> p3 ;  p1 has <invoke id="K">
//   "fwd" in p1 sends "go" to #_K; events c.* from the child are taken by a targetless transition.
#include "uscxml/Interpreter.h"
#include "uscxml/interpreter/InterpreterMonitor.h"
#include "uscxml/util/DOM.h"
#include "uscxml/plugins/Factory.h"

#include <chrono>
#include <mutex>
#include <string>
#include <vector>
#include <cstdio>
#include <cstdlib>
#include <cstring>
#include <unistd.h>
#include <signal.h>
#include <sys/wait.h>

using namespace uscxml;
using namespace XERCESC_NS;

static std::mutex LOGM;
static std::vector<std::string> LOG;
static std::string PARENT;

static std::string esc(const std::string& s) {
	std::string o;
	for (char c : s) { if (c == '"' || c == '\\') o += '\\'; o += c; }
	return o;
}

class Mon : public InterpreterMonitor {
public:
	Mon() { copyToInvokers(true); }
	void rec(const std::string& sid, const char* cb, const std::string& a) {
		std::lock_guard<std::mutex> l(LOGM);
		if (PARENT.size() == 0) PARENT = sid;
		LOG.push_back(std::string("{\"k\":\"ev\",\"r\":\"") + (sid == PARENT ? "P" : "C") + "\",\"cb\":\"" + cb + "\",\"a\":\"" + esc(a) + "\"}");
	}
	void beforeProcessingEvent(const std::string& s, const Event& ev) { rec(s, "bPE", ev.name); }
	void beforeMicroStep(const std::string& s) { rec(s, "bMS", ""); }
	void beforeEnteringState(const std::string& s, const std::string& n, const DOMElement*) { rec(s, "bES", n); }
	void beforeExitingState(const std::string& s, const std::string& n, const DOMElement*) { rec(s, "bXS", n); }
	void beforeExecutingContent(const std::string& s, const DOMElement* e) {
		std::string n = LOCALNAME(e);
		if (n == "log") n += ":" + ATTR(e, X("label"));
		if (n == "send") n += ":" + ATTR(e, X("event"));
		rec(s, "bEC", n);
	}
	void beforeInvoking(const std::string& s, const DOMElement*, const std::string& id) { rec(s, "bIV", id); }
	void afterInvoking(const std::string& s, const DOMElement*, const std::string& id) { rec(s, "aIV", id); }
	void beforeUninvoking(const std::string& s, const DOMElement*, const std::string& id) { rec(s, "bUI", id); }
	void afterUninvoking(const std::string& s, const DOMElement*, const std::string& id) { rec(s, "aUI", id); }
	void onStableConfiguration(const std::string& s) { rec(s, "oSC", ""); }
	void beforeCompletion(const std::string& s) { rec(s, "bCO", ""); }
	void afterCompletion(const std::string& s) { rec(s, "aCO", ""); }
};

static unsigned rnd(unsigned& s) { s = s * 1103515245u + 12345u; return (s >> 8) & 0xffffff; }

static std::string childDoc(int kind) {
	std::string h = "<scxml xmlns=\"http://www.w3.org/2005/07/scxml\" version=\"1.0\" datamodel=\"null\" name=\"child\">";
	if (kind == 0)
		return h + "<final id=\"cf\"/></scxml>";
	if (kind == 1)
		return h + "<state id=\"c1\"><transition event=\"go\" target=\"c2\"><send target=\"#_parent\" event=\"c.1\"/></transition></state>"
		       "<state id=\"c2\"><transition event=\"go\" target=\"c3\"><send target=\"#_parent\" event=\"c.2\"/></transition></state>"
		       "<state id=\"c3\"><transition event=\"go\" target=\"cf\"><send target=\"#_parent\" event=\"c.3\"/></transition></state>"
		       "<final id=\"cf\"/></scxml>";
	return h + "<state id=\"c1\"><onexit><send target=\"#_parent\" event=\"c.late\"/></onexit>"
	       "<transition event=\"go\"><send target=\"#_parent\" event=\"c.pong\"/></transition>"
	       "<transition event=\"ping\"><send target=\"#_parent\" event=\"c.fwd\"/></transition></state></scxml>";
}

// scenario "all" (combo >= 12): two regions of a parallel invoke one child each (K1, K2); the driver calls
// cancel() -- or sends "quit" (transition to a top-level final) -- and steps to FINISHED: every invocation
// must have been uninvoked when the parent's completion ends, and no child callback may follow.
static void allRun(unsigned seed, int combo, FILE* out) {
	setenv("USCXML_NOCACHE_FILES", "YES", 1);
	FILE* devnull = fopen("/dev/null", "w");
	if (devnull) { dup2(fileno(devnull), 1); dup2(fileno(devnull), 2); }
	unsigned s = seed;
	int kind = (combo % 2) ? 1 : 2;          // children that need "go" three times / never finish
	bool byCancel = ((combo / 2) % 2) == 0;
	std::string doc = "<scxml xmlns=\"http://www.w3.org/2005/07/scxml\" version=\"1.0\" datamodel=\"null\" name=\"parent2\">"
	                  "<parallel id=\"pp\">"
	                  "<state id=\"q1\"><invoke type=\"scxml\" id=\"K1\"><content>" + childDoc(kind) + "</content></invoke></state>"
	                  "<state id=\"q2\"><invoke type=\"scxml\" id=\"K2\"><content>" + childDoc(kind) + "</content></invoke></state>"
	                  "<transition event=\"quit\" target=\"fin\"/><transition event=\"c\"/>"
	                  "</parallel><final id=\"fin\"/></scxml>";
	Interpreter interp = Interpreter::fromXML(doc, "file:///verif/mti2.scxml");
	Mon mon;
	interp.addMonitor(&mon);
	auto t0 = std::chrono::steady_clock::now();
	auto ms = [&]() { return (long)std::chrono::duration_cast<std::chrono::milliseconds>(std::chrono::steady_clock::now() - t0).count(); };
	long stopAt = 30 + rnd(s) % 60;
	bool stopped = false;
	InterpreterState st = USCXML_UNDEF;
	while (ms() < 600) {
		st = interp.step(2);
		if (st == USCXML_FINISHED) break;
		if (!stopped && ms() >= stopAt) {
			{
				std::lock_guard<std::mutex> l(LOGM);
				LOG.push_back(std::string("{\"k\":\"ev\",\"r\":\"D\",\"cb\":\"") + (byCancel ? "cancel" : "recv") + "\",\"a\":\"quit\"}");
			}
			if (byCancel) interp.cancel();
			else interp.receive(Event("quit", Event::EXTERNAL));
			stopped = true;
		}
	}
	{
		std::lock_guard<std::mutex> l(LOGM);
		LOG.push_back(std::string("{\"k\":\"ev\",\"r\":\"D\",\"cb\":\"finished\",\"a\":\"") + (st == USCXML_FINISHED ? "yes" : "no") + "\"}");
	}
	usleep(150000);     // anything a still running child does shows up now
	{
		std::lock_guard<std::mutex> l(LOGM);
		for (auto& l2 : LOG) fprintf(out, "%s\n", l2.c_str());
		fflush(out);
	}
	_exit(0);
}

// scenario "bad" (combo 16, 17): the invocation cannot be started (unknown invoker type / child document that is
// not well-formed): the monitor's beforeInvoking still has to be closed by afterInvoking (C13), the session goes on
static void badRun(unsigned seed, int combo, FILE* out) {
	setenv("USCXML_NOCACHE_FILES", "YES", 1);
	FILE* devnull = fopen("/dev/null", "w");
	if (devnull) { dup2(fileno(devnull), 1); dup2(fileno(devnull), 2); }
	std::string inv = (combo % 2) ? "<invoke type=\"http://no.such/invoker\" id=\"K1\"/>"
	                              : "<invoke type=\"scxml\" id=\"K1\" src=\"file:///verif/no-such-document.scxml\"/>";
	std::string doc = "<scxml xmlns=\"http://www.w3.org/2005/07/scxml\" version=\"1.0\" datamodel=\"null\" name=\"parent3\">"
	                  "<state id=\"q1\">" + inv + "<transition event=\"quit\" target=\"fin\"/><transition event=\"*\"/></state><final id=\"fin\"/></scxml>";
	Interpreter interp = Interpreter::fromXML(doc, "file:///verif/mti3.scxml");
	Mon mon;
	interp.addMonitor(&mon);
	InterpreterState st = USCXML_UNDEF;
	for (int i = 0; i < 40 && st != USCXML_FINISHED; i++) {
		st = interp.step(5);
		if (i == 12) interp.receive(Event("quit", Event::EXTERNAL));
	}
	{
		std::lock_guard<std::mutex> l(LOGM);
		LOG.push_back(std::string("{\"k\":\"ev\",\"r\":\"D\",\"cb\":\"finished\",\"a\":\"") + (st == USCXML_FINISHED ? "yes" : "no") + "\"}");
		for (auto& l2 : LOG) fprintf(out, "%s\n", l2.c_str());
		fflush(out);
	}
	_exit(0);
}

static void oneRun(unsigned seed, int combo, FILE* out) {
	if (combo >= 16) badRun(seed, combo, out);
	if (combo >= 12) allRun(seed, combo, out);
	setenv("USCXML_NOCACHE_FILES", "YES", 1);
	FILE* devnull = fopen("/dev/null", "w");
	if (devnull) { dup2(fileno(devnull), 1); dup2(fileno(devnull), 2); }
	unsigned s = seed;
	int kind = combo % 3;
	bool autofwd = (combo / 3) % 2;
	bool finalize = (combo / 6) % 2;
	std::string doc = "<scxml xmlns=\"http://www.w3.org/2005/07/scxml\" version=\"1.0\" datamodel=\"null\" name=\"parent\">"
	                  "<state id=\"p1\"><invoke type=\"scxml\" id=\"K\"" + std::string(autofwd ? " autoforward=\"true\"" : "") + "><content>" + childDoc(kind) + "</content>" +
	                  (finalize ? "<finalize><log label=\"fin\"/></finalize>" : "") + "</invoke>"
	                  "<transition event=\"leave\" target=\"p2\"/>"
	                  "<transition event=\"bounce.now\" target=\"p2\"/>"
	                  "<transition event=\"done.invoke.K\" target=\"p3\"><log label=\"done\"/></transition>"
	                  "<transition event=\"fwd\"><send target=\"#_K\" event=\"go\"/></transition>"
	                  "<transition event=\"c\"><log label=\"fromchild\"/></transition></state>"
	                  // "rebounce": p1 is entered and left again by an internal event within ONE macrostep: no invocation
	                  "<state id=\"p2\"><transition event=\"back\" target=\"p1\"/>"
	                  "<transition event=\"rebounce\" target=\"p1\"><raise event=\"bounce.now\"/></transition></state>"
	                  "<state id=\"p3\"/></scxml>";
	static const char* EVS[] = {"fwd", "fwd", "leave", "back", "ping", "fwd", "rebounce", "leave"};
	int len = rnd(s) % 8;
	std::vector<std::string> script;
	for (int i = 0; i < len; i++) script.push_back(EVS[rnd(s) % 8]);

	Interpreter interp = Interpreter::fromXML(doc, "file:///verif/mti.scxml");
	Mon mon;
	interp.addMonitor(&mon);
	auto t0 = std::chrono::steady_clock::now();
	auto ms = [&]() { return (long)std::chrono::duration_cast<std::chrono::milliseconds>(std::chrono::steady_clock::now() - t0).count(); };
	size_t next = 0;
	long nextAt = 5 + rnd(s) % 20;
	long endAt = 400;
	while (ms() < endAt) {
		InterpreterState st = interp.step(2);
		if (st == USCXML_FINISHED) break;
		if (next < script.size() && ms() >= nextAt) {
			{
				std::lock_guard<std::mutex> l(LOGM);
				LOG.push_back("{\"k\":\"ev\",\"r\":\"D\",\"cb\":\"recv\",\"a\":\"" + script[next] + "\"}");
			}
			interp.receive(Event(script[next], Event::EXTERNAL));
			next++;
			nextAt = ms() + rnd(s) % 25;
			if (next == script.size()) endAt = ms() + 120;    // settle
		}
		if (script.empty() && ms() > 150) break;
	}
	{
		std::lock_guard<std::mutex> l(LOGM);
		for (auto& l2 : LOG) fprintf(out, "%s\n", l2.c_str());
		fflush(out);
	}
	_exit(0);
}

int main(int argc, char** argv) {
	if (argc < 4) { fprintf(stderr, "usage: mt_invoke <out> <runs> <seed>\n"); return 2; }
	FILE* out = fopen(argv[1], "w");
	int runs = atoi(argv[2]);
	unsigned seed = (unsigned)atoi(argv[3]);
	for (int r = 1; r <= runs; r++) {
		int combo = (r - 1) % 18;
		if (argc > 4 && strcmp(argv[4], "bad") == 0) combo = 16 + (r - 1) % 2;
		fprintf(out, "{\"k\":\"reset\",\"run\":%d,\"scenario\":\"%s\",\"child\":%d,\"autoforward\":%s,\"finalize\":%s}\n", r,
		        combo >= 16 ? "bad" : combo >= 12 ? "all" : "one", combo >= 12 ? ((combo % 2) ? 1 : 2) : combo % 3,
		        combo < 12 && (combo / 3) % 2 ? "true" : "false", combo < 12 && (combo / 6) % 2 ? "true" : "false");
		fflush(out);
		int pfd[2];
		if (pipe(pfd)) return 2;
		pid_t pid = fork();
		if (pid == 0) {
			close(pfd[0]);
			alarm(8);
			oneRun(seed * 7919u + (unsigned)r * 31u + 7u, combo, fdopen(pfd[1], "w"));
		}
		close(pfd[1]);
		std::string buf;
		char tmp[65536];
		ssize_t n;
		while ((n = read(pfd[0], tmp, sizeof tmp)) > 0) buf.append(tmp, n);
		close(pfd[0]);
		int status = 0;
		waitpid(pid, &status, 0);
		size_t lastnl = buf.rfind('\n');
		if (lastnl != std::string::npos) fwrite(buf.data(), 1, lastnl + 1, out);
		std::string ex;
		if (WIFSIGNALED(status)) ex = WTERMSIG(status) == SIGALRM ? "timeout" : "signal " + std::to_string(WTERMSIG(status));
		else ex = WEXITSTATUS(status) == 0 ? "ok" : "exit " + std::to_string(WEXITSTATUS(status));
		fprintf(out, "{\"k\":\"end\",\"exit\":\"%s\"}\n", ex.c_str());
		fflush(out);
	}
	fclose(out);
	return 0;
}
