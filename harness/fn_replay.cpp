// fn_replay: replay TLC-generated vectors through pure functions of the implementation
// (DESIGN.md 4.4).  Modes:
//   namematch <vectors.tsv>     lines: <descriptor list text>\t<event name>\t<0|1>
//       implementations: uscxml::nameMatch and the copy shipped in test/src/test-gen-c.cpp
// Output: one line per disagreement "DIFF <impl>\t<desc>\t<name>\texpected=<e>\tgot=<g>",
// then "DONE <vectors> <diffs>".
#include <cstdio>
#include <cstring>
#include <fstream>
#include <iostream>
#include <string>

#define main test_gen_c_main
#include "test/src/test-gen-c.cpp"     // found through -I$(REPO)
#undef main

#include "uscxml/util/String.h"
#include "uscxml/Interpreter.h"
#include <unistd.h>
#include <sys/wait.h>
#include <signal.h>
#include <vector>
#include <sstream>

// ---- promela mode -------------------------------------------------------------------
// vectors: <text>\t<expected: integer | ERR>.  Every chunk of vectors is evaluated in a
// forked child by the promela datamodel of a live interpreter (evalAsData and evalAsBool);
// a crashing vector is reported as CRASH <signal> and the chunk continues after it.
static const char* PML_DOC =
    "<scxml xmlns=\"http://www.w3.org/2005/07/scxml\" version=\"1.0\" datamodel=\"promela\">"
    "<datamodel><data id=\"a\" type=\"int\" expr=\"3\"/><data id=\"b\" type=\"int\" expr=\"5\"/>"
    "<data id=\"arr\" type=\"int[3]\">[4,0,6]</data></datamodel>"
    "<state id=\"s\"/></scxml>";

static int promelaChunk(const std::vector<std::pair<std::string, std::string> >& v, size_t from, int wfd) {
	// returns via pipe: lines "<idx>\t<data result>\t<bool result>"
	setenv("USCXML_NOCACHE_FILES", "YES", 1);
	FILE* out = fdopen(wfd, "w");
	FILE* devnull = fopen("/dev/null", "w");
	if (devnull) { dup2(fileno(devnull), 1); dup2(fileno(devnull), 2); }
	uscxml::Interpreter interp = uscxml::Interpreter::fromXML(PML_DOC, "file:///verif/pml.scxml");
	for (int i = 0; i < 6; i++) interp.step(0);
	for (size_t i = from; i < v.size(); i++) {
		std::string d, b;
		fprintf(out, "%zu\tBEGIN\n", i);
		fflush(out);
		try {
			uscxml::Data r = interp.getImpl()->evalAsData(v[i].first);
			d = r.atom.size() ? r.atom : "EMPTY";
		} catch (uscxml::Event e) { d = "ERR"; } catch (...) { d = "EXC"; }
		try {
			b = interp.getImpl()->isTrue(v[i].first) ? "1" : "0";
		} catch (uscxml::Event e) { b = "ERR"; } catch (...) { b = "EXC"; }
		fprintf(out, "%zu\t%s\t%s\n", i, d.c_str(), b.c_str());
		fflush(out);
	}
	fflush(out);
	_exit(0);
}

static int promelaMode(const char* file) {
	std::ifstream in(file);
	std::vector<std::pair<std::string, std::string> > v;
	std::string line;
	while (std::getline(in, line)) {
		size_t t = line.find('\t');
		if (t == std::string::npos) continue;
		v.push_back(std::make_pair(line.substr(0, t), line.substr(t + 1)));
	}
	size_t from = 0;
	long crashes = 0;
	while (from < v.size()) {
		int pfd[2];
		if (pipe(pfd)) return 2;
		pid_t pid = fork();
		if (pid == 0) { close(pfd[0]); alarm(120); promelaChunk(v, from, pfd[1]); }
		close(pfd[1]);
		FILE* r = fdopen(pfd[0], "r");
		char buf[4096];
		size_t begun = from;
		bool open = false;
		size_t done = from;
		while (fgets(buf, sizeof buf, r)) {
			std::string l(buf);
			while (l.size() && (l[l.size() - 1] == '\n')) l.erase(l.size() - 1);
			size_t t1 = l.find('\t');
			size_t idx = strtoul(l.substr(0, t1).c_str(), NULL, 10);
			std::string rest = l.substr(t1 + 1);
			if (rest == "BEGIN") { begun = idx; open = true; continue; }
			open = false;
			done = idx + 1;
			printf("R\t%s\t%s\t%s\n", v[idx].first.c_str(), v[idx].second.c_str(), rest.c_str());
		}
		fclose(r);
		int status = 0;
		waitpid(pid, &status, 0);
		if (open || (WIFSIGNALED(status) && done < v.size())) {
			// the child died while evaluating vector `begun`
			int sig = WIFSIGNALED(status) ? WTERMSIG(status) : 0;
			printf("R\t%s\t%s\tCRASH%d\tCRASH%d\n", v[begun].first.c_str(), v[begun].second.c_str(), sig, sig);
			crashes++;
			from = begun + 1;
		} else {
			from = done < v.size() && done > from ? done : v.size();
		}
	}
	printf("DONE %zu %ld\n", v.size(), crashes);
	return 0;
}

// StateMachine::nameMatch is a (private) static member of the shipped scaffolding; reach it
// through a subclass-free trick: the class declares it in a public section if compiled as is.
static bool scaffoldMatch(const std::string& d, const std::string& n) {
	return StateMachine::nameMatch(d, n);
}

// ---- lua mode (C16) ----------------------------------------------------------------------
// vectors: "<way> <token stream>" (token stream as in json_replay: A V hex | A I hex | L n .. | M n K hex ..)
//   way = assign | init | event ; read back with evalAsData
// output: "L <n> ok" | "L <n> NE <json of what came back>" | "L <n> ERR"
// then the protected names: "PN <name> raised=<0|1> unchanged=<0|1>"
static std::string unhexS(const std::string& h) {
	if (h == "-") return "";
	std::string o;
	for (size_t i = 0; i + 1 < h.size(); i += 2) o += (char)strtol(h.substr(i, 2).c_str(), NULL, 16);
	return o;
}
static uscxml::Data buildData(std::istringstream& in) {
	std::string tok;
	in >> tok;
	if (tok == "A") {
		std::string ty, h;
		in >> ty >> h;
		return uscxml::Data(unhexS(h), ty == "V" ? uscxml::Data::VERBATIM : uscxml::Data::INTERPRETED);
	}
	uscxml::Data d;
	int n = 0;
	in >> n;
	if (tok == "L") { for (int i = 0; i < n; i++) d.array.push_back(buildData(in)); }
	else { for (int i = 0; i < n; i++) { std::string k, h; in >> k >> h; d.compound[unhexS(h)] = buildData(in); } }
	return d;
}
static const char* LUA_DOC =
    "<scxml xmlns=\"http://www.w3.org/2005/07/scxml\" version=\"1.0\" datamodel=\"lua\">"
    "<datamodel><data id=\"v\" expr=\"0\"/><data id=\"w\" expr=\"0\"/></datamodel><state id=\"s\"/></scxml>";

static int luaMode(const char* file) {
	setenv("USCXML_NOCACHE_FILES", "YES", 1);
	std::ifstream in(file);
	std::string line;
	int saved = dup(2);
	FILE* devnull = fopen("/dev/null", "w");
	if (devnull) dup2(fileno(devnull), 2);
	static uscxml::Interpreter interp = uscxml::Interpreter::fromXML(LUA_DOC, "file:///verif/lua.scxml");
	for (int i = 0; i < 6; i++) interp.step(0);
	uscxml::DataModel dm = interp.getActionLanguage()->dataModel;
	long n = 0;
	while (std::getline(in, line)) {
		n++;
		std::istringstream is(line);
		std::string way;
		is >> way;
		uscxml::Data d = buildData(is);
		try {
			uscxml::Data back;
			std::map<std::string, std::string> noattr;
			if (way == "assign") { dm.assign("v", d, noattr); back = dm.evalAsData("v"); }
			else if (way == "init") { dm.init("w", d, noattr); back = dm.evalAsData("w"); }
			else { uscxml::Event e("x.y", uscxml::Event::EXTERNAL); e.data = d; dm.setEvent(e); back = dm.evalAsData("_event.data"); }
			if (back == d) printf("L %ld ok\n", n);
			else printf("L %ld NE %s\n", n, uscxml::Data::toJSON(back).c_str());
		} catch (uscxml::Event e) { printf("L %ld ERR\n", n); } catch (...) { printf("L %ld EXC\n", n); }
		fflush(stdout);
	}
	const char* names[] = {"_event", "_sessionid", "_name", "_ioprocessors", "_invokers"};
	for (int i = 0; i < 5; i++) {
		std::string before, after;
		bool raised = false;
		std::map<std::string, std::string> noattr;
		try { before = uscxml::Data::toJSON(dm.evalAsData(names[i])); } catch (...) { before = "?"; }
		try { dm.assign(names[i], uscxml::Data("otherValue", uscxml::Data::VERBATIM), noattr); } catch (uscxml::Event e) { raised = (e.name == "error.execution"); } catch (...) {}
		try { after = uscxml::Data::toJSON(dm.evalAsData(names[i])); } catch (...) { after = "??"; }
		printf("PN %s raised=%d unchanged=%d\n", names[i], raised ? 1 : 0, before == after ? 1 : 0);
	}
	printf("DONE %ld\n", n);
	fflush(stdout);
	dup2(saved, 2);
	_exit(0);
}

// ---- foreign mode (C14) ------------------------------------------------------------------
// every document is run to its first idle point and serialized; the text is then offered to a
// fresh interpreter of every document: own text must be accepted, a foreign one rejected.
static std::string slurp(const char* path) {
	std::ifstream in(path);
	std::stringstream ss;
	ss << in.rdbuf();
	return ss.str();
}
static int foreignMode(int argc, char** argv) {
	setenv("USCXML_NOCACHE_FILES", "YES", 1);
	FILE* devnull = fopen("/dev/null", "w");
	int saved = dup(2);
	if (devnull) dup2(fileno(devnull), 2);
	std::vector<std::string> docs, states;
	// interpreters are deliberately never destroyed here: tear-down is C10's subject
	static std::vector<uscxml::Interpreter> keep;
	for (int i = 2; i < argc; i++) docs.push_back(slurp(argv[i]));
	for (size_t i = 0; i < docs.size(); i++) {
		uscxml::Interpreter a = uscxml::Interpreter::fromXML(docs[i], "file:///verif/foreign" + std::to_string(i) + ".scxml");
		uscxml::InterpreterState st = uscxml::USCXML_UNDEF;
		for (int k = 0; k < 30 && st != uscxml::USCXML_IDLE && st != uscxml::USCXML_FINISHED; k++) st = a.step(0);
		try { states.push_back(a.serialize()); } catch (...) { states.push_back(""); }
		keep.push_back(a);
	}
	for (size_t i = 0; i < docs.size(); i++) {
		for (size_t j = 0; j < docs.size(); j++) {
			if (states[j].size() == 0) continue;
			bool threw = false;
			try {
				uscxml::Interpreter b = uscxml::Interpreter::fromXML(docs[i], "file:///verif/foreign" + std::to_string(i) + ".scxml");
				keep.push_back(b);
				b.deserialize(states[j]);
			} catch (...) { threw = true; }
			if (i == j) { if (threw) printf("OWNFAIL %zu\n", i); }
			else printf("%s doc=%zu state-of=%zu\n", threw ? "REJECTED" : "ACCEPTED", i, j);
		}
	}
	printf("DONE %zu\n", docs.size());
	fflush(stdout);
	dup2(saved, 2);
	_exit(0);
}

// ---- store mode (C17: values written are the values read back) ---------------------------
// input:  R\t<read expr>...   then per program   P\t<loc>\t<expr>[\t<loc>\t<expr>]
// output: S <n> <outcome of each assignment: ok|ERR|EXC, comma separated> <value of each read expr | ERR, comma separated>
//         C <n> <signal>      the program crashed the process
static const char* STORE_DOC =
    "<scxml xmlns=\"http://www.w3.org/2005/07/scxml\" version=\"1.0\" datamodel=\"promela\">"
    "<datamodel><data id=\"a\" type=\"int\" expr=\"3\"/><data id=\"w\" type=\"int\"/>"
    "<data id=\"arr\" type=\"int[3]\">[4,0,6]</data><data id=\"z\" type=\"int[4]\"/></datamodel>"
    "<state id=\"s\"/></scxml>";

static std::vector<std::string> splitTabs(const std::string& line) {
	std::vector<std::string> out;
	size_t p = 0;
	while (true) {
		size_t q = line.find('\t', p);
		out.push_back(line.substr(p, q == std::string::npos ? std::string::npos : q - p));
		if (q == std::string::npos) break;
		p = q + 1;
	}
	return out;
}

static void storeChunk(const std::vector<std::vector<std::string> >& progs, const std::vector<std::string>& reads, size_t from, size_t to, int wfd) {
	setenv("USCXML_NOCACHE_FILES", "YES", 1);
	FILE* out = fdopen(wfd, "w");
	FILE* devnull = fopen("/dev/null", "w");
	if (devnull) { dup2(fileno(devnull), 1); dup2(fileno(devnull), 2); }
	std::list<uscxml::Interpreter> keep;     // never destroyed (tear-down is not this check's subject)
	for (size_t n = from; n < to; n++) {
		fprintf(out, "B %zu\n", n);
		fflush(out);
		alarm(4);            // per program: one that hangs costs seconds, not the whole chunk's budget
		keep.push_back(uscxml::Interpreter::fromXML(STORE_DOC, "file:///verif/store.scxml"));
		uscxml::Interpreter& interp = keep.back();
		for (int i = 0; i < 4; i++) interp.step(0);
		uscxml::DataModel dm = interp.getActionLanguage()->dataModel;
		std::map<std::string, std::string> noattr;
		std::string oks, vals;
		for (size_t k = 1; k + 1 < progs[n].size(); k += 2) {
			std::string o = "ok";
			try { dm.assign(progs[n][k], uscxml::Data(progs[n][k + 1], uscxml::Data::INTERPRETED), noattr); }
			catch (uscxml::Event e) { o = "ERR"; } catch (...) { o = "EXC"; }
			oks += (oks.size() ? "," : "") + o;
		}
		for (size_t k = 0; k < reads.size(); k++) {
			std::string v;
			try { uscxml::Data r = dm.evalAsData(reads[k]); v = r.atom.size() ? r.atom : "EMPTY"; }
			catch (uscxml::Event e) { v = "ERR"; } catch (...) { v = "EXC"; }
			vals += (vals.size() ? "," : "") + v;
		}
		fprintf(out, "S %zu %s %s\n", n, oks.c_str(), vals.c_str());
		fflush(out);
		if (keep.size() > 50) { /* bound memory: leak deliberately, but in pieces */ keep.clear(); }
	}
	fflush(out);
	_exit(0);
}

static int storeMode(const char* file) {
	std::ifstream in(file);
	if (!in) { perror("open"); return 2; }
	std::vector<std::vector<std::string> > progs;
	std::vector<std::string> reads;
	std::string line;
	while (std::getline(in, line)) {
		std::vector<std::string> f = splitTabs(line);
		if (f.size() && f[0] == "R") reads.assign(f.begin() + 1, f.end());
		else if (f.size() && f[0] == "P") progs.push_back(f);
	}
	size_t from = 0, crashes = 0;
	while (from < progs.size()) {
		// a tree on which every program hangs would cost 4 s per program: twelve crashed or hung programs are
		// reported, the rest is reported as not run (STOP)
		if (crashes >= 12) { printf("STOP %zu\n", from); break; }
		size_t to = std::min(progs.size(), from + 100);
		int pfd[2];
		if (pipe(pfd)) return 2;
		pid_t pid = fork();
		if (pid == 0) { close(pfd[0]); alarm(120); storeChunk(progs, reads, from, to, pfd[1]); }
		close(pfd[1]);
		std::string buf;
		char tmp[65536];
		ssize_t k;
		while ((k = read(pfd[0], tmp, sizeof tmp)) > 0) buf.append(tmp, k);
		close(pfd[0]);
		int status = 0;
		waitpid(pid, &status, 0);
		size_t last = from;
		bool begun = false;
		std::istringstream is(buf);
		while (std::getline(is, line)) {
			if (line[0] == 'B') { last = strtoul(line.c_str() + 2, NULL, 10); begun = true; }
			else if (line[0] == 'S') { printf("%s\n", line.c_str()); begun = false; }
		}
		if (WIFSIGNALED(status) || (WIFEXITED(status) && WEXITSTATUS(status) != 0)) {
			printf("C %zu %d\n", last, WIFSIGNALED(status) ? WTERMSIG(status) : -WEXITSTATUS(status));
			from = last + 1;
			crashes++;
		} else {
			from = to;
		}
		(void)begun;
	}
	printf("DONE %zu\n", progs.size());
	return 0;
}

int main(int argc, char** argv) {
	if (argc < 3) { fprintf(stderr, "usage: fn_replay <mode> <file>\n"); return 2; }
	std::string mode = argv[1];
	if (mode == "promela") return promelaMode(argv[2]);
	if (mode == "foreign") return foreignMode(argc, argv);
	if (mode == "lua") return luaMode(argv[2]);
	if (mode == "store") return storeMode(argv[2]);
	std::ifstream in(argv[2]);
	if (!in) { perror("open"); return 2; }
	long n = 0, diffs = 0;
	std::string line;
	if (mode == "namematch") {
		while (std::getline(in, line)) {
			size_t t1 = line.find('\t');
			size_t t2 = line.find('\t', t1 + 1);
			if (t1 == std::string::npos || t2 == std::string::npos) continue;
			std::string desc = line.substr(0, t1);
			std::string name = line.substr(t1 + 1, t2 - t1 - 1);
			bool exp = line[t2 + 1] == '1';
			n++;
			bool g1 = uscxml::nameMatch(desc, name);
			if (g1 != exp) { diffs++; printf("DIFF nameMatch\t%s\t%s\texpected=%d\tgot=%d\n", desc.c_str(), name.c_str(), exp, g1); }
			bool g2 = scaffoldMatch(desc, name);
			if (g2 != exp) { diffs++; printf("DIFF test-gen-c\t%s\t%s\texpected=%d\tgot=%d\n", desc.c_str(), name.c_str(), exp, g2); }
		}
	} else {
		fprintf(stderr, "unknown mode\n");
		return 2;
	}
	printf("DONE %ld %ld\n", n, diffs);
	return 0;
}
