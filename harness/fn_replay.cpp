// fn_replay: replay TLC-generated vectors through pure functions of the implementation
// (DESIGN.md 4.4).  Modes:
//   namematch <vectors.tsv>     lines: <descriptor list text>\t<event name>\t<0|1>
//       implementations: uscxml::nameMatch and the copy shipped in test/src/test-gen-c.cpp
// Output: one line per disagreement "DIFF <impl>\t<desc>\t<name>\texpected=<e>\tgot=<g>",
// then "DONE <vectors> <diffs>".
#include <cstdio>
#include <cstring>
#include <fstream>
#include <iostream>
#include <string>

#define main test_gen_c_main
#include "../../repo/test/src/test-gen-c.cpp"
#undef main

#include "uscxml/util/String.h"

// StateMachine::nameMatch is a (private) static member of the shipped scaffolding; reach it
// through a subclass-free trick: the class declares it in a public section if compiled as is.
static bool scaffoldMatch(const std::string& d, const std::string& n) {
	return StateMachine::nameMatch(d, n);
}

int main(int argc, char** argv) {
	if (argc < 3) { fprintf(stderr, "usage: fn_replay <mode> <file>\n"); return 2; }
	std::string mode = argv[1];
	std::ifstream in(argv[2]);
	if (!in) { perror("open"); return 2; }
	long n = 0, diffs = 0;
	std::string line;
	if (mode == "namematch") {
		while (std::getline(in, line)) {
			size_t t1 = line.find('\t');
			size_t t2 = line.find('\t', t1 + 1);
			if (t1 == std::string::npos || t2 == std::string::npos) continue;
			std::string desc = line.substr(0, t1);
			std::string name = line.substr(t1 + 1, t2 - t1 - 1);
			bool exp = line[t2 + 1] == '1';
			n++;
			bool g1 = uscxml::nameMatch(desc, name);
			if (g1 != exp) { diffs++; printf("DIFF nameMatch\t%s\t%s\texpected=%d\tgot=%d\n", desc.c_str(), name.c_str(), exp, g1); }
			bool g2 = scaffoldMatch(desc, name);
			if (g2 != exp) { diffs++; printf("DIFF test-gen-c\t%s\t%s\texpected=%d\tgot=%d\n", desc.c_str(), name.c_str(), exp, g2); }
		}
	} else {
		fprintf(stderr, "unknown mode\n");
		return 2;
	}
	printf("DONE %ld %ld\n", n, diffs);
	return 0;
}
