// interp_trace: record runs of the real uSCXML interpreter as ndjson traces
// (DESIGN.md 4.1, Appendix B).
//
//   interp_trace <batch-file> <out.ndjson>
//
// Batch file (written by gen/, machine made):
//   CASE <id> <engine:large|fast> <mode:drip|preload|cancel@k> <nwords> <nvars> <nbytes>
//   H <json text echoed as the reset line>
//   W <event name>                 (nwords lines)
//   V <variable name>              (nvars lines)
//   <nbytes bytes of SCXML>\n
//
// Every case runs in a forked child: a crash, a hang or an uncaught exception
// is an *outcome* of the case (the "end" line), never of the harness.
//
// No source hooks are needed: the observation points are public seams
// (InterpreterMonitor, LoggerImpl, EventQueueImpl via ActionLanguage).

#include "uscxml/Interpreter.h"
#include "uscxml/interpreter/InterpreterMonitor.h"
#include "uscxml/interpreter/InterpreterImpl.h"
#include "uscxml/interpreter/LoggingImpl.h"
#include "uscxml/interpreter/BasicEventQueue.h"
#include "uscxml/interpreter/EventQueueImpl.h"
#include "uscxml/plugins/Factory.h"
#include "uscxml/util/DOM.h"
#include "uscxml/debug/InterpreterIssue.h"

#include <xercesc/dom/DOM.hpp>

#include <cstdio>
#include <cstdlib>
#include <cstring>
#include <fstream>
#include <iostream>
#include <sstream>
#include <map>
#include <vector>
#include <list>
#include <string>
#include <thread>
#include <unistd.h>
#include <signal.h>
#include <sys/wait.h>
#include <sys/time.h>

using namespace uscxml;
using namespace XERCESC_NS;

static std::string jesc(const std::string& s) {
	std::string o;
	for (unsigned char c : s) {
		if (c == '"' || c == '\\') { o += '\\'; o += c; }
		else if (c < 0x20) { char b[8]; snprintf(b, sizeof b, "\\u%04x", c); o += b; }
		else o += c;
	}
	return o;
}

// "a.b.c" -> ["a","b","c"]   ("" -> [])
static std::string jtokens(const std::string& name) {
	std::string o = "[";
	if (name.size() > 0) {
		size_t start = 0;
		bool first = true;
		while (true) {
			size_t dot = name.find('.', start);
			std::string tok = name.substr(start, dot == std::string::npos ? std::string::npos : dot - start);
			if (!first) o += ",";
			o += "\"" + jesc(tok) + "\"";
			first = false;
			if (dot == std::string::npos) break;
			start = dot + 1;
		}
	}
	return o + "]";
}

struct Recorder {
	std::vector<std::string> atoms;  // json objects
	std::vector<std::string> raw;    // json arrays ["cb","arg"]
	std::map<const DOMElement*, int> transIndex;
	std::map<const DOMElement*, std::string> elemPath;
	bool inReceive = false;
	std::thread::id owner = std::this_thread::get_id();   // the stepping thread

	void atom(const std::string& a, const std::string& xjson, long v) {
		atoms.push_back("{\"a\":\"" + a + "\",\"x\":" + xjson + ",\"v\":" + std::to_string(v) + "}");
	}
	void cb(const std::string& name, const std::string& arg) {
		raw.push_back("[\"" + name + "\",\"" + jesc(arg) + "\"]");
	}
	void clear() { atoms.clear(); raw.clear(); }
};

static Recorder* REC = NULL;

static std::string stateIdOf(const DOMElement* e) {
	if (HAS_ATTR(e, kXMLCharId)) return ATTR(e, kXMLCharId);
	if (LOCALNAME(e) == "scxml") return "s1";
	return "?" + DOMUtils::xPathForNode(e);
}

static std::string elemName(const DOMElement* e) {
	auto it = REC->elemPath.find(e);
	if (it != REC->elemPath.end()) return it->second;
	return LOCALNAME(e);
}

class RecMonitor : public InterpreterMonitor {
public:
	RecMonitor() { copyToInvokers(false); }
	void beforeProcessingEvent(const std::string&, const Event& ev) { REC->cb("bPE", ev.name); }
	void beforeMicroStep(const std::string&) { REC->cb("bMS", ""); }
	void beforeExitingState(const std::string&, const std::string&, const DOMElement* s) {
		std::string id = stateIdOf(s);
		REC->cb("bXS", id);
		REC->atom("exit", "[\"" + jesc(id) + "\"]", 0);
	}
	void afterExitingState(const std::string&, const std::string&, const DOMElement* s) { REC->cb("aXS", stateIdOf(s)); }
	void beforeExecutingContent(const std::string&, const DOMElement* e) { REC->cb("bEC", elemName(e)); }
	void afterExecutingContent(const std::string&, const DOMElement* e) { REC->cb("aEC", elemName(e)); }
	void beforeUninvoking(const std::string&, const DOMElement*, const std::string& id) { REC->cb("bUI", id); REC->atom("uninv", "[\"" + jesc(id) + "\"]", 0); }
	void afterUninvoking(const std::string&, const DOMElement*, const std::string& id) { REC->cb("aUI", id); }
	void beforeTakingTransition(const std::string&, const DOMElement* t) {
		auto it = REC->transIndex.find(t);
		std::string id = it == REC->transIndex.end() ? "t?" : "t" + std::to_string(it->second);
		REC->cb("bTT", id);
		REC->atom("take", "[\"" + id + "\"]", 0);
	}
	void afterTakingTransition(const std::string&, const DOMElement* t) {
		auto it = REC->transIndex.find(t);
		REC->cb("aTT", it == REC->transIndex.end() ? "t?" : "t" + std::to_string(it->second));
	}
	void beforeEnteringState(const std::string&, const std::string&, const DOMElement* s) {
		std::string id = stateIdOf(s);
		REC->cb("bES", id);
		REC->atom("enter", "[\"" + jesc(id) + "\"]", 0);
	}
	void afterEnteringState(const std::string&, const std::string&, const DOMElement* s) { REC->cb("aES", stateIdOf(s)); }
	void beforeInvoking(const std::string&, const DOMElement*, const std::string& id) { REC->cb("bIV", id); REC->atom("inv", "[\"" + jesc(id) + "\"]", 0); }
	void afterInvoking(const std::string&, const DOMElement*, const std::string& id) { REC->cb("aIV", id); }
	void afterMicroStep(const std::string&) { REC->cb("aMS", ""); }
	void onStableConfiguration(const std::string&) { REC->cb("oSC", ""); REC->atom("stable", "[]", 0); }
	void beforeCompletion(const std::string&) { REC->cb("bCO", ""); REC->atom("completion", "[]", 0); }
	void afterCompletion(const std::string&) { REC->cb("aCO", ""); }
	void reportIssue(const std::string&, const InterpreterIssue&) { }
};

class RecLogger : public LoggerImpl {
public:
	std::shared_ptr<LoggerImpl> create() { return std::shared_ptr<LoggerImpl>(new RecLogger()); }
	void log(LogSeverity, const Event&) {}
	void log(LogSeverity, const Data&) {}
	void log(LogSeverity sev, const std::string& message) {
		if (sev != USCXML_LOG) return;
		std::string msg = message;
		while (msg.size() && (msg.back() == '\n' || msg.back() == '\r')) msg.pop_back();
		// "<label>: <value>"
		size_t p = msg.rfind(": ");
		std::string label = msg, val;
		if (p != std::string::npos) { label = msg.substr(0, p); val = msg.substr(p + 2); }
		else if (msg.size() >= 1 && msg.back() == ':') { label = msg.substr(0, msg.size() - 1); }
		char* endp = NULL;
		long v = 0;
		bool numeric = false;
		if (val == "\"\"") val = "";   // null datamodel: <log> without expr prints ""
		if (val.size() > 0) {
			v = strtol(val.c_str(), &endp, 10);
			numeric = (*endp == 0);
			if (!numeric) {
				// "5.0" style reals that are whole numbers
				double d = strtod(val.c_str(), &endp);
				if (*endp == 0 && d == (long)d) { v = (long)d; numeric = true; }
			}
		} else {
			numeric = true; v = 0;  // no expr (null datamodel rendering)
		}
		if (!numeric) { label = label + "=" + val; v = -999999; }
		REC->cb("LOG", msg);
		REC->atom("log", "[\"" + jesc(label) + "\"]", v);
	}
};

// EventQueueImpl that delegates to BasicEventQueue and records traffic
class RecQueue : public EventQueueImpl {
public:
	RecQueue(bool internal) : _internal(internal) {}
	std::shared_ptr<EventQueueImpl> create() { return std::shared_ptr<EventQueueImpl>(new RecQueue(_internal)); }
	Event dequeue(size_t blockMs) {
		Event e = _q.dequeue(blockMs);
		if (e) {
			REC->cb(_internal ? "DQI" : "DQE", e.name);
			REC->atom("deq", jtokens(e.name), _internal ? 0 : 1);
		}
		return e;
	}
	void enqueue(const Event& e) {
		// a delayed <send> arrives on the timer thread: the recorder belongs to the stepping thread
		// (the arrival is seen when the event is dequeued)
		if (REC->inReceive || std::this_thread::get_id() != REC->owner) { _q.enqueue(e); return; }
		REC->cb(_internal ? "NQI" : "NQE", e.name);
		if (e.name.size() > 0)
			REC->atom(_internal ? "raise" : "send", jtokens(e.name), 0);
		_q.enqueue(e);
	}
	void reset() { _q.reset(); }
	Data serialize() { return _q.serialize(); }
	void deserialize(const Data& d) { _q.deserialize(d); }
	BasicEventQueue _q;
	bool _internal;
};

static const char* stateName(InterpreterState s) {
	switch (s) {
	case USCXML_FINISHED: return "FINISHED";
	case USCXML_UNDEF: return "UNDEF";
	case USCXML_IDLE: return "IDLE";
	case USCXML_INITIALIZED: return "INITIALIZED";
	case USCXML_INSTANTIATED: return "INSTANTIATED";
	case USCXML_MICROSTEPPED: return "MICROSTEPPED";
	case USCXML_MACROSTEPPED: return "MACROSTEPPED";
	case USCXML_CANCELLED: return "CANCELLED";
	default: return "OTHER";
	}
}

static void indexElements(DOMElement* root, Recorder& rec) {
	// document order of <transition> elements in the *source text*: taken before
	// the engines re-sort the DOM (LargeMicroStep::resortStates)
	int t = 0;
	std::list<DOMElement*> all = DOMUtils::inDocumentOrder({"transition"}, root);
	for (auto e : all) rec.transIndex[e] = ++t;
}

struct Case {
	std::string id, engine, mode, header, scxml;
	std::vector<std::string> words, vars;
};

static std::string cfgJson(Interpreter& interp) {
	std::string o = "[";
	bool first = true;
	for (auto e : interp.getConfiguration()) {
		if (!first) o += ",";
		o += "\"" + jesc(stateIdOf(e)) + "\"";
		first = false;
	}
	return o + "]";
}

// main trace line, and (prefixed with '#') the raw monitor stream of the same call,
// which the parent routes to the separate raw file
static void emitCall(FILE* out, const char* op, const std::string& arg, const char* ret, Recorder& rec, const std::string& cfg) {
	fprintf(out, "{\"k\":\"call\",\"op\":\"%s\",\"arg\":%s,\"ret\":\"%s\",\"atoms\":[", op, arg.c_str(), ret);
	for (size_t i = 0; i < rec.atoms.size(); i++) fprintf(out, "%s%s", i ? "," : "", rec.atoms[i].c_str());
	fprintf(out, "],\"cfg\":%s}\n", cfg.c_str());
	fprintf(out, "#{\"k\":\"raw\",\"op\":\"%s\",\"ret\":\"%s\",\"cfg\":%s,\"c\":[", op, ret, cfg.c_str());
	for (size_t i = 0; i < rec.raw.size(); i++) fprintf(out, "%s%s", i ? "," : "", rec.raw[i].c_str());
	fprintf(out, "]}\n");
	rec.clear();
}

static void installSeams(Interpreter& interp, const std::string& engine, RecMonitor* mon, Recorder& rec) {
	rec.transIndex.clear();
	indexElements(interp.getImpl()->getDocument()->getDocumentElement(), rec);
	ActionLanguage al;
	al.logger = Logger(std::shared_ptr<LoggerImpl>(new RecLogger()));
	if (engine != "default") {
		// "default": the interpreter as a user gets it -- engine and queues are created lazily by init()
		al.microStepper = MicroStep(Factory::getInstance()->createMicroStepper(engine, (MicroStepCallbacks*)interp.getImpl().get()));
		al.internalQueue = EventQueue(std::shared_ptr<EventQueueImpl>(new RecQueue(true)));
		al.externalQueue = EventQueue(std::shared_ptr<EventQueueImpl>(new RecQueue(false)));
	}
	interp.setActionLanguage(al);
	interp.addMonitor(mon);
}

static int runCase(const Case& c, FILE* out) {
	Recorder rec;
	REC = &rec;
	RecMonitor mon;
	const int MAXSTEPS = getenv("VERIF_MAXSTEPS") ? atoi(getenv("VERIF_MAXSTEPS")) : 400;

	try {
		std::string url = "file:///verif/case" + c.id + ".scxml";
		Interpreter interp = Interpreter::fromXML(c.scxml, url);
		if (!interp) { fprintf(out, "{\"k\":\"note\",\"msg\":\"no interpreter\"}\n"); return 3; }
		installSeams(interp, c.engine, &mon, rec);
		std::list<Interpreter> retired;   // interpreters replaced by a resumed one are kept alive (no tear-down here)

		size_t wi = 0;
		std::string mode = c.mode;
		bool preload = (mode == "preload");
		int cancelAt = -1;
		int resumeAt = -1;      // serialize + resume in a fresh interpreter after the k-th stable return
		if (mode.compare(0, 7, "cancel@") == 0) cancelAt = atoi(mode.c_str() + 7);
		if (mode.compare(0, 7, "resume@") == 0) resumeAt = atoi(mode.c_str() + 7);
		if (mode.compare(0, 8, "presume@") == 0) { resumeAt = atoi(mode.c_str() + 8); preload = true; }
		if (mode == "api") {
			// C10: the event "word" is a word over the public API, executed verbatim:
			//   step | recv:<event> | cancel | reset
			InterpreterState st2 = USCXML_UNDEF;
			for (size_t i = 0; i < c.words.size(); i++) {
				const std::string& op = c.words[i];
				if (op == "step") {
					st2 = interp.step(0);
					emitCall(out, "step", "[]", stateName(st2), rec, (st2 == USCXML_INITIALIZED) ? "[]" : cfgJson(interp));
				} else if (op.compare(0, 5, "recv:") == 0) {
					rec.inReceive = true;
					Event e(op.substr(5), Event::EXTERNAL);
					interp.receive(e);
					rec.inReceive = false;
					emitCall(out, "receive", jtokens(op.substr(5)), "-", rec, "[]");
				} else if (op == "cancel") {
					rec.inReceive = true;
					interp.cancel();
					rec.inReceive = false;
					emitCall(out, "cancel", "[]", "-", rec, "[]");
				} else if (op == "reset") {
					interp.reset();
					emitCall(out, "reset", "[]", "-", rec, "[]");
				}
			}
			fprintf(out, "{\"k\":\"end\",\"steps\":%d,\"dm\":[],\"last\":\"%s\",\"limit\":false", (int)c.words.size(), stateName(st2));
			fflush(out);
			_exit(0);
		}
		int steps = 0;
		int idles = 0;
		int stables = 0;
		// charts with delayed <send>: at the end, block in step() until nothing arrives for settleMs
		int settleMs = 0;
		bool settled = false;     // the run ended with a blocking step that timed out: every timer had time to fire
		{
			size_t p = c.header.find("\"settle\":");
			if (p != std::string::npos) settleMs = atoi(c.header.c_str() + p + 9);
		}
		bool finishedOnce = false;
		InterpreterState st = USCXML_UNDEF;
		while (steps < MAXSTEPS) {
			if (cancelAt >= 0 && steps == cancelAt) {
				interp.cancel();
				emitCall(out, "cancel", "[]", "-", rec, cfgJson(interp));
				cancelAt = -1;
			}
			st = interp.step(0);
			steps++;
			emitCall(out, "step", "[]", stateName(st), rec, st == USCXML_INITIALIZED ? "[]" : cfgJson(interp));
			if (st == USCXML_FINISHED) {
				if (finishedOnce) break;
				finishedOnce = true;   // one more step: FINISHED is absorbing
				continue;
			}
			if (st == USCXML_INITIALIZED && preload) {
				for (; wi < c.words.size(); wi++) {
					rec.inReceive = true;
					Event e(c.words[wi], Event::EXTERNAL);
					interp.receive(e);
					rec.inReceive = false;
					emitCall(out, "receive", jtokens(c.words[wi]), "-", rec, "[]");
				}
			}
			if ((st == USCXML_IDLE || st == USCXML_MACROSTEPPED) && resumeAt >= 0 && ++stables == resumeAt) {
				// C14: snapshot at a macrostep boundary, continue in a FRESH interpreter for the same document
				std::string state;
				const char* outcome = "ok";
				try {
					state = interp.serialize();
					Interpreter fresh = Interpreter::fromXML(c.scxml, url);
					installSeams(fresh, c.engine, &mon, rec);
					rec.inReceive = true;    // events re-enqueued by deserialize are not sends
					fresh.deserialize(state);
					rec.inReceive = false;
					retired.push_back(interp);
					interp = fresh;
				} catch (Event e) {
					rec.inReceive = false;
					outcome = "exception";
				} catch (...) {
					rec.inReceive = false;
					outcome = "exception";
				}
				rec.clear();
				emitCall(out, "resume", "[]", outcome, rec, cfgJson(interp));
				resumeAt = -1;
			}
			if (st == USCXML_IDLE) {
				if (wi < c.words.size()) {
					rec.inReceive = true;
					Event e(c.words[wi], Event::EXTERNAL);
					interp.receive(e);
					rec.inReceive = false;
					emitCall(out, "receive", jtokens(c.words[wi]), "-", rec, cfgJson(interp));
					wi++;
				} else if (settleMs > 0 && cancelAt < 0) {
					// wait for delayed events: a blocking step returns early when one arrives
					while (steps < MAXSTEPS) {
						st = interp.step(settleMs);
						steps++;
						emitCall(out, "step", "[]", stateName(st), rec, cfgJson(interp));
						if (st == USCXML_IDLE) settled = true;                   // nothing arrived for settleMs
						if (st == USCXML_FINISHED || st == USCXML_IDLE) break;
					}
					break;
				} else {
					if (cancelAt >= 0 || ++idles > 1) break;
					// one extra step at quiescence: must be IDLE again
				}
			}
		}
		// final data values
		fprintf(out, "{\"k\":\"end\",\"steps\":%d,\"dm\":[", steps);
		bool first = true;
		for (auto& v : c.vars) {
			long num = 0;
			bool def = false;
			try {
				Data d = interp.getImpl()->evalAsData(v);
				if (d.atom.size() > 0) {
					char* endp;
					num = strtol(d.atom.c_str(), &endp, 10);
					if (*endp == 0) def = true;
					else { double dd = strtod(d.atom.c_str(), &endp); if (*endp == 0 && dd == (long)dd) { num = (long)dd; def = true; } }
				}
			} catch (...) { def = false; }
			fprintf(out, "%s{\"n\":\"%s\",\"def\":%s,\"v\":%ld}", first ? "" : ",", jesc(v).c_str(), def ? "true" : "false", def ? num : 0);
			first = false;
		}
		fprintf(out, "],\"last\":\"%s\",\"settled\":%s,\"limit\":%s", stateName(st), settled ? "true" : "false", steps >= MAXSTEPS ? "true" : "false");
		fflush(out);
		// leave without destroying the interpreter: tear-down (timer thread join) is
		// C10's subject and must not colour the outcome of a trace-recording case
		_exit(0);
	} catch (Event e) {
		fprintf(out, "{\"k\":\"note\",\"msg\":\"uncaught Event %s\"}\n", jesc(e.name).c_str());
		return 4;
	} catch (std::exception& e) {
		fprintf(out, "{\"k\":\"note\",\"msg\":\"uncaught std::exception %s\"}\n", jesc(e.what()).c_str());
		return 5;
	} catch (...) {
		fprintf(out, "{\"k\":\"note\",\"msg\":\"uncaught exception\"}\n");
		return 6;
	}
}

static bool readCase(std::istream& in, Case& c) {
	std::string line;
	while (std::getline(in, line)) {
		if (line.compare(0, 5, "CASE ") == 0) break;
	}
	if (!in) return false;
	std::istringstream hs(line.substr(5));
	size_t nwords, nvars, nbytes;
	hs >> c.id >> c.engine >> c.mode >> nwords >> nvars >> nbytes;
	std::getline(in, line);
	c.header = line.substr(2);
	c.words.clear(); c.vars.clear();
	for (size_t i = 0; i < nwords; i++) { std::getline(in, line); c.words.push_back(line.substr(2)); }
	for (size_t i = 0; i < nvars; i++) { std::getline(in, line); c.vars.push_back(line.substr(2)); }
	c.scxml.resize(nbytes);
	in.read(&c.scxml[0], nbytes);
	return true;
}

int main(int argc, char** argv) {
	if (argc < 3) { fprintf(stderr, "usage: interp_trace <batch> <out.ndjson> [timeout_s]\n"); return 2; }
	std::ifstream in(argv[1], std::ios::binary);
	FILE* out = fopen(argv[2], "w");
	FILE* rawout = fopen((std::string(argv[2]) + ".raw").c_str(), "w");
	int timeoutS = argc > 3 ? atoi(argv[3]) : 10;
	if (!in || !out || !rawout) { perror("open"); return 2; }
	if (!getenv("VERIF_KEEP_CACHE")) setenv("USCXML_NOCACHE_FILES", "YES", 1);

	// make sure plugins are registered once, in the parent (no threads are started by this)
	Factory::getInstance();

	Case c;
	while (readCase(in, c)) {
		fprintf(out, "%s\n", c.header.c_str());
		fprintf(rawout, "%s\n", c.header.c_str());
		fflush(out);
		int pfd[2];
		if (pipe(pfd) != 0) { perror("pipe"); return 2; }
		pid_t pid = fork();
		if (pid == 0) {
			close(pfd[0]);
			FILE* cout_ = fdopen(pfd[1], "w");
			// silence the library's own chatter
			FILE* devnull = fopen("/dev/null", "w");
			if (devnull) { dup2(fileno(devnull), 1); dup2(fileno(devnull), 2); }
			alarm(timeoutS);
			int rc = runCase(c, cout_);
			fflush(cout_);
			_exit(rc);
		}
		close(pfd[1]);
		std::string buf;
		char tmp[65536];
		ssize_t n;
		while ((n = read(pfd[0], tmp, sizeof tmp)) > 0) buf.append(tmp, n);
		close(pfd[0]);
		int status = 0;
		waitpid(pid, &status, 0);
		std::string exitStr;
		if (WIFSIGNALED(status)) exitStr = WTERMSIG(status) == SIGALRM ? "timeout" : "signal " + std::to_string(WTERMSIG(status));
		else if (WEXITSTATUS(status) == 0) exitStr = "ok";
		else exitStr = "exit " + std::to_string(WEXITSTATUS(status));

		// the child's last line is an unterminated "end" object iff it got that far
		bool hasEnd = false;
		size_t lastnl = buf.rfind('\n');
		std::string tail = lastnl == std::string::npos ? buf : buf.substr(lastnl + 1);
		std::string body = lastnl == std::string::npos ? "" : buf.substr(0, lastnl + 1);
		if (tail.compare(0, 10, "{\"k\":\"end\"") == 0) hasEnd = true;
		else if (tail.size()) { /* truncated line of a crashed child: drop it */ }
		{
			// route '#'-prefixed lines to the raw file
			size_t pos = 0;
			while (pos < body.size()) {
				size_t nl = body.find('\n', pos);
				if (nl == std::string::npos) nl = body.size() - 1;
				if (body[pos] == '#') fwrite(body.data() + pos + 1, 1, nl - pos, rawout);
				else fwrite(body.data() + pos, 1, nl - pos + 1, out);
				pos = nl + 1;
			}
		}
		if (hasEnd) fprintf(out, "%s,\"exit\":\"%s\"}\n", tail.c_str(), exitStr.c_str());
		else fprintf(out, "{\"k\":\"end\",\"steps\":-1,\"dm\":[],\"last\":\"?\",\"limit\":false,\"exit\":\"%s\"}\n", exitStr.c_str());
		fprintf(rawout, "{\"k\":\"end\",\"exit\":\"%s\"}\n", exitStr.c_str());
		fflush(out);
	}
	fclose(out);
	fclose(rawout);
	return 0;
}
