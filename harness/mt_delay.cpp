// mt_delay: C09 -- delayed events against the real interpreter (timer thread = libevent loop).
//
//   mt_delay <out.ndjson> <runs> <seed> <mode:random|forced>
//
// random: a chart with n delayed sends (delays from {0,5,10,20,40,80} ms, ids i1..in) in the entry
//         handler and one transition per id that cancels it; the main thread steps (short blocking
//         steps) and injects cancel requests at seeded random times.  Recorded with a monotonic
//         clock: send(i,delay,t) [beforeExecutingContent of the <send>], cancel(i,t)
//         [afterExecutingContent of the <cancel>], deliver(i,t) [beforeProcessingEvent].
// forced: the schedule of DelayQueue.tla's counterexample -- the timer thread is parked in the
//         window of timerCallback between unlocking and eventReady (hook dq.cb.unlocked) until the
//         interpreter thread is inside cancelDelayed() of the same timer holding both mutexes
//         (hook dq.cancel.locked).  A deadlock shows as watchdog timeout.
// Every run is a forked child with a watchdog.
#include "uscxml/Interpreter.h"
#include "uscxml/interpreter/InterpreterMonitor.h"
#include "uscxml/util/VerifHooks.h"
#include "uscxml/util/DOM.h"
#include "uscxml/plugins/Factory.h"

#include <atomic>
#include <chrono>
#include <mutex>
#include <string>
#include <vector>
#include <cstdio>
#include <cstdlib>
#include <cstring>
#include <unistd.h>
#include <signal.h>
#include <sys/wait.h>

using namespace uscxml;
using namespace XERCESC_NS;

static std::chrono::steady_clock::time_point T0;
static long nowMs() { return std::chrono::duration_cast<std::chrono::milliseconds>(std::chrono::steady_clock::now() - T0).count(); }

static std::mutex LOGM;
static std::vector<std::string> LOG;
static void logLine(const std::string& s) { std::lock_guard<std::mutex> l(LOGM); LOG.push_back(s); }

static bool FORCED = false;
static std::atomic<int> inWindow(0), cancelInside(0);

static void hook(const char* point, const void*) {
	if (!FORCED) return;
	if (strcmp(point, "dq.cb.unlocked") == 0) {
		inWindow = 1;
		for (int i = 0; i < 10000 && !cancelInside.load(); i++) usleep(100);   // wait (<= 1 s) for the cancel to be inside
		usleep(2000);
	} else if (strcmp(point, "dq.cancel.locked") == 0) {
		cancelInside = 1;      // holding _delayMutex and the queue's mutex, about to event_del()
	}
}

class Mon : public InterpreterMonitor {
public:
	void beforeExecutingContent(const std::string&, const DOMElement* e) {
		if (LOCALNAME(e) == "send" && HAS_ATTR(e, X("id"))) {
			std::string id = ATTR(e, X("id"));
			std::string d = HAS_ATTR(e, X("delay")) ? ATTR(e, X("delay")) : "0ms";
			logLine("{\"k\":\"send\",\"i\":" + ATTR(e, X("event")).substr(2) + ",\"id\":" + std::to_string(id.size() - 1) + ",\"delay\":" + std::to_string(atoi(d.c_str())) + ",\"t\":" + std::to_string(nowMs()) + "}");
		}
	}
	void afterExecutingContent(const std::string&, const DOMElement* e) {
		if (LOCALNAME(e) == "cancel") {
			std::string id = ATTR(e, X("sendid"));
			logLine("{\"k\":\"cancel\",\"id\":" + std::to_string(id.size() - 1) + ",\"t\":" + std::to_string(nowMs()) + "}");
		}
	}
	void beforeProcessingEvent(const std::string&, const Event& ev) {
		if (ev.name.size() > 2 && ev.name[0] == 'd' && ev.name[1] == '.')
			logLine("{\"k\":\"deliver\",\"i\":" + ev.name.substr(2) + ",\"t\":" + std::to_string(nowMs()) + "}");
	}
};

// sendids are prefix related on purpose (i1, i11, i111, ...): <cancel sendid="i1"/> must leave i11 alone
static std::string idName(int g) { return "i" + std::string((size_t)g, '1'); }

static unsigned rnd(unsigned& s) { s = s * 1103515245u + 12345u; return (s >> 8) & 0xffffff; }

static void oneRun(unsigned seed, FILE* out) {
	setenv("USCXML_NOCACHE_FILES", "YES", 1);
	FILE* devnull = fopen("/dev/null", "w");
	if (devnull) { dup2(fileno(devnull), 1); dup2(fileno(devnull), 2); }
	uscxml::verifHook() = hook;
	static const int DELAYS[] = {0, 5, 10, 20, 40, 80};
	unsigned s = seed;
	int n = FORCED ? 1 : 2 + rnd(s) % 5;
	std::string doc = "<scxml xmlns=\"http://www.w3.org/2005/07/scxml\" version=\"1.0\" datamodel=\"null\"><state id=\"a\"><onentry>";
	std::vector<int> delay(n + 1), group(n + 1);
	for (int i = 1; i <= n; i++) {
		delay[i] = FORCED ? 20 : DELAYS[rnd(s) % 6];
		// every third send or so re-uses the sendid of the previous one: <cancel> has to cancel all of them
		group[i] = (!FORCED && i > 1 && rnd(s) % 3 == 0) ? group[i - 1] : i;
		doc += "<send event=\"d." + std::to_string(i) + "\" delay=\"" + std::to_string(delay[i]) + "ms\" id=\"" + idName(group[i]) + "\"/>";
	}
	doc += "</onentry>";
	for (int i = 1; i <= n; i++)
		doc += "<transition event=\"c" + std::to_string(i) + "\"><cancel sendid=\"" + idName(i) + "\"/></transition>";
	doc += "<transition event=\"d\"/></state></scxml>";

	// cancel plan: (time, id)
	std::vector<std::pair<long, int> > plan;
	if (!FORCED) {
		for (int i = 1; i <= n; i++)
			if (group[i] == i && rnd(s) % 3 == 0) plan.push_back(std::make_pair((long)(rnd(s) % 100), i));
	}
	T0 = std::chrono::steady_clock::now();
	Interpreter interp = Interpreter::fromXML(doc, "file:///verif/mtd.scxml");
	Mon mon;
	interp.addMonitor(&mon);
	long endAt = 200;
	bool forcedSent = false;
	while (nowMs() < endAt) {
		interp.step(2);
		long t = nowMs();
		for (size_t k = 0; k < plan.size(); k++) {
			if (plan[k].second > 0 && plan[k].first <= t) {
				interp.receive(Event("c" + std::to_string(plan[k].second), Event::EXTERNAL));
				plan[k].second = 0;
			}
		}
		if (FORCED && !forcedSent && inWindow.load()) {
			// the timer thread is in the window: make the interpreter thread execute <cancel sendid="i1"/>
			interp.receive(Event("c1", Event::EXTERNAL));
			forcedSent = true;
		}
	}
	for (auto& l : LOG) fprintf(out, "%s\n", l.c_str());
	fflush(out);
	_exit(0);
}

int main(int argc, char** argv) {
	if (argc < 5) { fprintf(stderr, "usage: mt_delay <out> <runs> <seed> <random|forced>\n"); return 2; }
	FILE* out = fopen(argv[1], "w");
	int runs = atoi(argv[2]);
	unsigned seed = (unsigned)atoi(argv[3]);
	FORCED = strcmp(argv[4], "forced") == 0;
	for (int r = 1; r <= runs; r++) {
		fprintf(out, "{\"k\":\"reset\",\"run\":%d,\"n\":6,\"mode\":\"%s\"}\n", r, argv[4]);
		fflush(out);
		int pfd[2];
		if (pipe(pfd)) return 2;
		pid_t pid = fork();
		if (pid == 0) {
			close(pfd[0]);
			alarm(5);
			oneRun(seed * 7919u + (unsigned)r * 13u + 1u, fdopen(pfd[1], "w"));
		}
		close(pfd[1]);
		std::string buf;
		char tmp[65536];
		ssize_t n;
		while ((n = read(pfd[0], tmp, sizeof tmp)) > 0) buf.append(tmp, n);
		close(pfd[0]);
		int status = 0;
		waitpid(pid, &status, 0);
		size_t lastnl = buf.rfind('\n');
		if (lastnl != std::string::npos) fwrite(buf.data(), 1, lastnl + 1, out);
		std::string ex;
		if (WIFSIGNALED(status)) ex = WTERMSIG(status) == SIGALRM ? "timeout" : "signal " + std::to_string(WTERMSIG(status));
		else ex = WEXITSTATUS(status) == 0 ? "ok" : "exit " + std::to_string(WEXITSTATUS(status));
		fprintf(out, "{\"k\":\"end\",\"exit\":\"%s\"}\n", ex.c_str());
		fflush(out);
	}
	fclose(out);
	return 0;
}
