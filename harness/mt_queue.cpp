// mt_queue: C08 (and the cancel-unblocks-step part of C10) against the real interpreter.
//
//   mt_queue <out.ndjson> <runs> <producers> <per-producer> <seed> <mode:block|poll>
//
// Every run is a forked child: a real interpreter (chart: one state with a targetless wildcard
// transition) is stepped by the main thread while N producer threads call Interpreter::receive
// with events named p<i>.<k>.  The USCXML_VERIF hooks inside BasicEventQueue record
//   enq(p,k) / deq(p,k)   under the queue's mutex, with a process-wide sequence number,
// the monitor records bpe(p,k) (beforeProcessingEvent).  Seeded random delays at the hook points
// diversify the interleavings.  When everything was processed the main thread (blocked in
// step()) is woken by cancel() from a helper thread and must reach FINISHED.
#include "uscxml/Interpreter.h"
#include "uscxml/interpreter/InterpreterMonitor.h"
#include "uscxml/interpreter/InterpreterImpl.h"
#include "uscxml/util/VerifHooks.h"
#include "uscxml/plugins/Factory.h"

#include <atomic>
#include <thread>
#include <mutex>
#include <vector>
#include <string>
#include <cstdio>
#include <cstdlib>
#include <cstring>
#include <unistd.h>
#include <signal.h>
#include <sys/wait.h>

using namespace uscxml;

struct Rec { int pt; int p; int n; };   // pt: 0 enq, 1 deq, 2 bpe
static std::vector<Rec> LOG;
static std::mutex LOGM;               // the order of LOG entries is the order of the critical sections:
                                      // enq/deq are appended while the queue's own mutex is held
static unsigned SEED;
static std::atomic<int> processed(0);

static bool parseName(const std::string& name, int& p, int& n) {
	return sscanf(name.c_str(), "p%d.%d", &p, &n) == 2;
}

static bool NODELAY = false;     // mode "burst": no artificial delays, producers hammer the queue
static void maybeDelay(unsigned salt) {
	if (NODELAY) return;
	// cheap per-call pseudo random delay (0, or 20-200 us) derived from seed, thread and a counter
	static thread_local unsigned ctr = 0;
	unsigned x = SEED * 2654435761u + salt * 40503u + (++ctr) * 2246822519u + (unsigned)(size_t)pthread_self();
	x ^= x >> 15; x *= 2246822519u; x ^= x >> 13;
	if ((x & 7) == 0) usleep(20 + (x >> 8) % 180);
	else if ((x & 7) == 1) std::this_thread::yield();
}

static void hook(const char* point, const void* obj) {
	if (strcmp(point, "eq.enqueue.locked") == 0 || strcmp(point, "eq.dequeue.locked") == 0) {
		const Event* e = (const Event*)obj;
		int p, n;
		if (parseName(e->name, p, n)) {
			std::lock_guard<std::mutex> l(LOGM);
			LOG.push_back(Rec{point[3] == 'e' ? 0 : 1, p, n});
		}
		maybeDelay(1);
	} else if (strcmp(point, "eq.dequeue.wait") == 0) {
		maybeDelay(2);
	}
}

class Mon : public InterpreterMonitor {
public:
	void beforeProcessingEvent(const std::string&, const Event& ev) {
		int p, n;
		if (parseName(ev.name, p, n)) {
			{
				std::lock_guard<std::mutex> l(LOGM);
				LOG.push_back(Rec{2, p, n});
			}
			processed++;
		}
	}
};

static const char* DOC =
    "<scxml xmlns=\"http://www.w3.org/2005/07/scxml\" version=\"1.0\" datamodel=\"null\">"
    "<state id=\"a\"><transition event=\"*\"/></state></scxml>";

static int oneRun(int producers, int per, bool block, FILE* out) {
	setenv("USCXML_NOCACHE_FILES", "YES", 1);
	FILE* devnull = fopen("/dev/null", "w");
	if (devnull) { dup2(fileno(devnull), 1); dup2(fileno(devnull), 2); }
	uscxml::verifHook() = hook;
	Interpreter interp = Interpreter::fromXML(DOC, "file:///verif/mtq.scxml");
	Mon mon;
	interp.addMonitor(&mon);
	// bring it to the first idle point (queues exist after the first step)
	InterpreterState st = USCXML_UNDEF;
	for (int i = 0; i < 10 && st != USCXML_IDLE; i++) st = interp.step(0);

	std::vector<std::thread> threads;
	for (int p = 1; p <= producers; p++) {
		threads.push_back(std::thread([&interp, p, per]() {
			unsigned x = SEED * 2654435761u + (unsigned)p * 40503u;
			int burst = 0;
			for (int k = 1; k <= per; k++) {
				maybeDelay(10 + p);
				if (NODELAY && burst-- <= 0) {
					// mode "burst": 1-4 events back to back, then a pause of 0-60 us, so that the queue keeps running
					// empty and the stepper keeps going to sleep while other producers are about to enqueue
					x = x * 1103515245u + 12345u;
					burst = (x >> 16) % 4;
					unsigned us = (x >> 8) % 61;
					if (us) usleep(us);
				}
				Event e("p" + std::to_string(p) + "." + std::to_string(k), Event::EXTERNAL);
				interp.receive(e);
			}
		}));
	}
	int total = producers * per;
	std::thread canceller([&interp, total]() {
		while (processed.load() < total) usleep(200);
		usleep(2000);          // let the stepper block again in dequeue
		interp.cancel();       // must unblock a blocked step()
	});
	int guard = 0;
	while (st != USCXML_FINISHED && guard++ < 100000) {
		st = block ? interp.step() : interp.step(0);
		if (!block && st == USCXML_IDLE) { maybeDelay(3); }
	}
	for (auto& t : threads) t.join();
	canceller.join();
	for (auto& r : LOG)
		fprintf(out, "{\"k\":\"ev\",\"pt\":\"%s\",\"p\":%d,\"n\":%d}\n", r.pt == 0 ? "enq" : r.pt == 1 ? "deq" : "bpe", r.p, r.n);
	fflush(out);
	_exit(st == USCXML_FINISHED ? 0 : 9);
}

int main(int argc, char** argv) {
	if (argc < 7) { fprintf(stderr, "usage: mt_queue <out> <runs> <producers> <per> <seed> <block|poll>\n"); return 2; }
	FILE* out = fopen(argv[1], "w");
	int runs = atoi(argv[2]), producers = atoi(argv[3]), per = atoi(argv[4]);
	unsigned seed = (unsigned)atoi(argv[5]);
	bool block = strcmp(argv[6], "block") == 0 || strcmp(argv[6], "burst") == 0;
	NODELAY = strcmp(argv[6], "burst") == 0;
	Factory::getInstance();
	for (int r = 1; r <= runs; r++) {
		fprintf(out, "{\"k\":\"reset\",\"run\":%d,\"producers\":%d,\"per\":%d,\"mode\":\"%s\"}\n", r, producers, per, argv[6]);
		fflush(out);
		int pfd[2];
		if (pipe(pfd)) return 2;
		pid_t pid = fork();
		if (pid == 0) {
			close(pfd[0]);
			SEED = seed * 7919u + (unsigned)r;
			alarm(NODELAY ? 10 : 20);
			oneRun(producers, per, block, fdopen(pfd[1], "w"));
		}
		close(pfd[1]);
		std::string buf;
		char tmp[65536];
		ssize_t n;
		while ((n = read(pfd[0], tmp, sizeof tmp)) > 0) buf.append(tmp, n);
		close(pfd[0]);
		int status = 0;
		waitpid(pid, &status, 0);
		size_t lastnl = buf.rfind('\n');
		if (lastnl != std::string::npos) fwrite(buf.data(), 1, lastnl + 1, out);
		std::string ex;
		if (WIFSIGNALED(status)) ex = WTERMSIG(status) == SIGALRM ? "timeout" : "signal " + std::to_string(WTERMSIG(status));
		else ex = WEXITSTATUS(status) == 0 ? "ok" : "exit " + std::to_string(WEXITSTATUS(status));
		fprintf(out, "{\"k\":\"end\",\"per\":%d,\"exit\":\"%s\"}\n", per, ex.c_str());
		fflush(out);
	}
	fclose(out);
	return 0;
}
