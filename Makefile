# Build everything the checks need from /repo's CURRENT working tree.
#   make setup   – configure + build (MANIFEST.setup_cmd)
#   make build   – incremental (called by every bin/check under flock)
REPO    ?= /repo
B       ?= /verif/build
HOOKS   := $(B)/hooks
BIN     := $(B)/bin
JOBS    ?= 16

CXX     := c++
DEFS    := -DUSCXML_EXPORT -DXERCESC_NS=xercesc_3_2 -DUSCXML_VERIF
INCS    := -I$(REPO) -I$(REPO)/src -I$(REPO)/contrib/src -I$(HOOKS) -I$(REPO)/contrib/src/jsmn \
           -I$(REPO)/contrib/src/evws -I$(REPO)/contrib/src/uriparser/include \
           -I/usr/include/lua5.3 -I$(REPO)/contrib/src/LuaBridge
CXXFLAGS := -std=gnu++11 -O1 -g -Wno-deprecated-declarations $(DEFS) $(INCS)
LIBS    := -L$(HOOKS)/lib -Wl,-rpath,$(HOOKS)/lib -luscxml_transform -luscxml -lxerces-c -levent -levent_pthreads -lpthread

HARNESSES := $(BIN)/interp_trace $(BIN)/fn_replay $(BIN)/xform $(BIN)/mt_queue $(BIN)/mt_teardown $(BIN)/mt_delay $(BIN)/mt_invoke $(BIN)/json_replay $(BIN)/json_replay_asan $(BIN)/validate_run

.PHONY: setup build libs harness clean
setup: build

build: libs harness

$(HOOKS)/build.ninja:
	mkdir -p $(HOOKS)
	cmake -S $(REPO) -B $(HOOKS) -G Ninja -DCMAKE_BUILD_TYPE=RelWithDebInfo \
	  -DCMAKE_CXX_FLAGS="-Wno-error -DUSCXML_VERIF" -DCMAKE_C_FLAGS="-DUSCXML_VERIF" \
	  -DBUILD_TESTS=OFF > $(B)/cmake.hooks.log 2>&1 || (tail -30 $(B)/cmake.hooks.log; false)

libs: $(HOOKS)/build.ninja
	@cmake --build $(HOOKS) --target uscxml uscxml_transform -- -j$(JOBS) > $(B)/build.hooks.log 2>&1 \
	  || (grep -E "error|Error|FAILED" -A5 $(B)/build.hooks.log | head -60; false)

harness: $(HARNESSES)

# harness binaries depend on the library so that an ABI-relevant change relinks them
$(BIN)/%: harness/%.cpp $(HOOKS)/lib/libuscxml.so
	@mkdir -p $(BIN)
	$(CXX) $(CXXFLAGS) -o $@ $< $(LIBS)

# the JSON parser under ASan+UBSan: Data.cpp and jsmn.c are compiled into the harness (instrumented),
# everything else comes from the shared library
$(BIN)/json_replay_asan: harness/json_replay.cpp $(REPO)/src/uscxml/messages/Data.cpp $(REPO)/contrib/src/jsmn/jsmn.c $(HOOKS)/lib/libuscxml.so
	@mkdir -p $(BIN)
	cc -c -O1 -g -fsanitize=address,undefined -fno-sanitize-recover=all -I$(REPO)/contrib/src/jsmn -o $(B)/jsmn_asan.o $(REPO)/contrib/src/jsmn/jsmn.c
	$(CXX) $(CXXFLAGS) -fsanitize=address,undefined -fno-sanitize-recover=all -o $@ harness/json_replay.cpp $(REPO)/src/uscxml/messages/Data.cpp $(B)/jsmn_asan.o $(LIBS)

clean:
	rm -rf $(B) /verif/out
