"""Signatures of the known findings (known_findings.json).  A signature is a
predicate over one violation record; it is as narrow as the root cause allows,
so that a different violation of the same property is still reported.
The file is never written at run time."""


def sig_static_conflict(v, chart, ctx):
    """the run differs from Appendix D but is exactly the run Appendix D prescribes when
    transitions with equal or ancestor-related sources are treated as conflicting
    (decided by re-validating the case under Variants = {"static"}, not by a heuristic)"""
    return ctx.get("class") == "static"


SIGNATURES = {
    "static_conflict": sig_static_conflict,
}


def match(known, v, chart, ctx):
    for k in known:
        fn = SIGNATURES.get(k.get("signature"))
        if fn is None:
            continue
        if "exec" in k and v.get("exec") not in k["exec"]:
            continue
        if fn(v, chart, ctx):
            return k
    return None
