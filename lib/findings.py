"""Signatures of the known findings (known_findings.json).  A signature is a
predicate over one violation record; it is as narrow as the root cause allows,
so that a different violation of the same property is still reported.
The file is never written at run time."""


def sig_static_conflict(v, chart, ctx):
    """the run differs from Appendix D but is exactly the run Appendix D prescribes when
    transitions with equal or ancestor-related sources are treated as conflicting
    (decided by re-validating the case under Variants = {"static"}, not by a heuristic)"""
    return ctx.get("class") == "static"


def _ancestors(chart, s):
    out = set()
    p = chart["states"][s - 1]["parent"]
    while p:
        out.add(p)
        p = chart["states"][p - 1]["parent"]
    return out


def sig_unevaluated_ancestor_cond(v, chart, ctx):
    """consequence of the static pre-emption rule (KF-C01-1) for error handling: the failing
    condition of an ANCESTOR's transition is never evaluated because a descendant already
    contributed a transition, so the error.execution Appendix D would raise is missing.
    Matches only: expected has exactly one more atom than got, that atom is raise(error.execution),
    and every transition with a failing condition has a source that is a proper ancestor of the
    source of a transition taken in this step."""
    if chart is None or v.get("why") != "atoms":
        return False
    exp, got = v["expected"], v["got"]
    key = lambda a: (a["a"], tuple(a["x"]), a["v"])
    e = [key(a) for a in exp]
    g = [key(a) for a in got]
    err = ("raise", ("error", "execution"), 0)
    if len(e) != len(g) + 1 or err not in e:
        return False
    i = next(i for i in range(len(e)) if i >= len(g) or e[i] != g[i])
    if e[i] != err or e[:i] + e[i + 1:] != g:
        return False
    bad = [t for t in chart["trans"] if t["cond"].get("k") == "berr"]
    taken = [a["x"][0] for a in got if a["a"] == "take"]
    tsrc = [t["src"] for t in chart["trans"] if t["id"] in taken]
    return bool(bad) and all(any(b["src"] in _ancestors(chart, s) for s in tsrc) for b in bad)


def sig_conflict_by_source(v, chart, ctx):
    """C05: a conflict bit between two transitions whose static exit sets are disjoint and whose sources are
    equal or ancestor-related (decided by spec/Tables.tla, which reports exactly these pairs under this name)"""
    return v.get("why") == "conflict-by-source-relation"


SIGNATURES = {
    "conflict_by_source": sig_conflict_by_source,
    "unevaluated_ancestor_cond": sig_unevaluated_ancestor_cond,
    "static_conflict": sig_static_conflict,
}


def match(known, v, chart, ctx):
    for k in known:
        fn = SIGNATURES.get(k.get("signature"))
        if fn is None:
            continue
        if "exec" in k and v.get("exec") not in k["exec"]:
            continue
        if fn(v, chart, ctx):
            return k
    return None
