"""debug helper: print chart (SCXML) and the verdict for a case of a campaign workdir"""
import sys, json
sys.path.insert(0,'/verif/lib'); sys.path.insert(0,'/verif/gen')
wd, eng, case = sys.argv[1], sys.argv[2], int(sys.argv[3])
d=json.load(open(wd+'/class.%s.json'%eng))
for k in ('un','amb','sta'):
    for v in d[k]:
        if v['case']==case:
            print(k, v['why'], v['action'], 'chart', v['chart'])
            ff=lambda a: "%s(%s%s)"%(a['a'],".".join(a['x']), ","+str(a['v']) if a['a']=='log' else '')
            print(" EXP:", " ".join(ff(a) for a in v['expected']))
            print(" GOT:", " ".join(ff(a) for a in v['got']))
            ch=json.loads(open(wd+'/charts.ndjson').read().splitlines()[v['chart']-1])
            for i,s in enumerate(ch['states']): print("  ", s['id'], s['kind'], 'parent', s['parent'], 'init', s['init'], 'deep' if s['deep'] else '', 'initT', s['initT'])
            for t in ch['trans']: print("  ", t['id'], 'src', t['src'], t['kind'], 'ev', t['ev'], 'tgt', t['tgt'], 'int' if t['internal'] else '', 'cond', t['cond']['k'])

if len(sys.argv)>4:
    import subprocess
    out=subprocess.run("grep -h -A60 '\"case\":%d,' %s/s*.%s.ndjson | awk 'NR==1||!/\"k\":\"reset\"/{print} /\"k\":\"end\"/{exit}' | cut -c1-300 | head -%s"%(case,wd,eng,sys.argv[4]),shell=True,capture_output=True,text=True).stdout
    print(out)
