"""C10: the interpreter life-cycle is well defined and always terminates.
Sequential half: API words over {step, receive, cancel, reset} -- every point of a run at which
cancel()/reset()/receive() can be requested, incl. before the first step -- are executed against a
fresh interpreter (forked) and every call is validated by TLC against ScxmlStep (result codes,
atoms, configuration; EnvReceive/EnvCancel/EnvReset are enabled in EVERY life-cycle state and never
crash; a reset interpreter behaves like a new one).
Concurrent half: Teardown.tla (timer thread run loop vs stop(): lost wake-up) is model-checked
under fairness; create/step/destroy cycles of the real interpreter run under a watchdog, with the
TLC counterexample schedule forced through the hooks dq.run.tested / dq.stop.before_break."""
import collections, itertools, json, os, time
from vlib import *
import campaign, directed, families, findings
from checks_interp import write_replay

OPS = ["step", "recv:e", "cancel", "reset"]


def build_api_campaign(tier, sd):
    cp = campaign.Campaign("api", tier)
    names = ["d_basic", "d_toplevel_final", "d_raise_order", "d_data", "d_history_shallow", "d_parallel_three_final", "d_error_in_if", "d_error_exit_nested"]
    charts = [c for c in directed.charts() if c.name in names]
    maxmid = 2 if tier == "quick" else 3
    for c in charts:
        cid = cp.add_chart(c)
        c.tags.append("D:" + c.name)
        for pre in range(0, 8):
            for n in range(0, maxmid + 1):
                for mid in itertools.product(OPS, repeat=n):
                    w = ["step"] * pre + list(mid) + ["step"] * 7
                    cp.cases.append({"chart": cid, "dm": "lua", "mode": "api", "word": w})
    cp.meta["families"]["api"] = {"charts": len(charts), "words_per_chart": len(cp.cases) // len(charts), "exhaustive": True}
    return cp


def teardown_model(wd, tier):
    cmd = tlc_cmd("Teardown.tla", "Teardown.cfg", os.path.join(wd, "meta_td"), workers=4)
    (rc, out), = run_parallel([cmd], timeout=600)
    p = parse_tlc(out)
    violated = "Temporal properties were violated" in out or "is violated" in out or "was violated" in out
    return p, violated, out


def run(pid, tier):
    t0 = time.time()
    rd = os.path.join(OUT, "replay")
    os.makedirs(rd, exist_ok=True)
    for fn in os.listdir(rd):
        if fn.startswith(pid + "-"):
            os.remove(os.path.join(rd, fn))
    wd = os.path.join(OUT, "c10")
    os.makedirs(wd, exist_ok=True)
    result = campaign.cached_campaign(tier, builder=build_api_campaign, name="api", engines=("large", "default"))
    if result["failures"]:
        print(json.dumps(result["failures"][0])[-3000:])
        print("MODEL/HARNESS FAILURE: api campaign")
        sys.exit(2)
    with open(os.path.join(result["workdir"], "charts.ndjson")) as f:
        charts = [json.loads(l) for l in f]
    known = [k for k in load_known() if k["property"] == pid]
    viol, hits = [], collections.OrderedDict()
    for v in result["verdicts"]:
        if v.get("judge") != "step" or v["property"] not in ("C10", "C07"):
            continue     # (Lockstep large/default differs by construction: the default run has no queue atoms)
        k = findings.match(known, v, charts[v["chart"] - 1], {})
        if k:
            hits.setdefault(k["id"], [k, 0])[1] += 1
        else:
            viol.append(v)
    # concurrent half
    td = {}
    tdviol = []
    if os.path.exists(os.path.join(SPEC, "Teardown.tla")):
        import teardown
        td, tdviol = teardown.run(wd, tier, known, hits)
    paths = [write_replay(pid, result, v) for v in viol[:10]]
    for i, v in enumerate(tdviol[:5]):
        rp = os.path.join(rd, "C10-teardown-%d.json" % i)
        with open(rp, "w") as f:
            json.dump(v, f, indent=1)
        paths.append(rp)
    cov = {"states": result["tlc_states"] + td.get("states", 0), "transitions": result["tlc_states"] + td.get("transitions", 0),
           "traces_validated_against_impl": result["traces"] + td.get("runs", 0),
           "samples": [{"api_word": "step x3, cancel, recv:e, step x7"}, {"api_word": "recv:e before the first step, then step x7"}],
           "api_words": result["cases"], "families": result["families"], "step_calls_validated": result["step_calls"],
           "spec_actions_matched_by_recorded_steps": result.get("spec_actions_matched", {}),
           "teardown": td}
    write_evidence(pid, tier, "model_checking", cov, time.time() - t0, len(viol) + len(tdviol),
                   ["where the documentation is silent the specification keeps an event received before the first step()",
                    "a watchdog timeout is reported only if an immediate re-run of the same schedule repeats it"])
    finish(pid, paths, ["%s (%d cases in this run)" % (h[0]["what"], h[1]) for h in hits.values()])
