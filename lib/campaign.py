"""The interpreter campaign: chart families x event words x engines, recorded once
per (implementation, machinery, tier, seed) and judged by TLC.  Its verdicts are
shared by C01, C02, C03, C07 (exit status), C10 (result codes), C13 (raw streams)."""
import fcntl
import json
import os
import random
import shutil
import time

from vlib import *
import chart as chartmod
import families
import directed


def dms_for(c, primary_only=False):
    if c.needs_dm():
        return ["lua"] if primary_only else ["lua", "promela"]
    return ["lua"] if primary_only else ["lua", "promela", "null"]


class Campaign:
    def __init__(self, name, tier):
        self.name = name
        self.tier = tier
        self.charts = []      # Chart objects (index+1 = chart id)
        self.cases = []       # dict(chart, dm, mode, word)
        self.meta = {"families": {}}

    def add_chart(self, c):
        self.charts.append(c)
        c.cid = len(self.charts)
        return c.cid

    def add_cases(self, cid, dms, words, modes=("drip",)):
        for dm in dms:
            for mode in modes:
                for w in words:
                    self.cases.append({"chart": cid, "dm": dm, "mode": mode, "word": list(w)})


def build_interp_campaign(tier, sd):
    """the case list is a deterministic function of (tier, seed)"""
    rnd = random.Random(sd * 7919 + (1 if tier == "quick" else 2))
    cp = Campaign("interp", tier)
    fam = cp.meta["families"]

    # --- D: directed charts
    for c in directed.charts():
        cid = cp.add_chart(c)
        c.tags.append("D:" + c.name)
        ws = families.words(c, 2 if tier == "quick" else 3)
        ws = [w for w in ws]
        for w in directed.WORDS.get(c.name, []):
            if w not in ws:
                ws.append(w)
        cp.add_cases(cid, dms_for(c), ws, modes=("drip", "preload"))
        cp.add_cases(cid, ["lua"], [w for w in ws if len(w) <= 1], modes=("cancel@2", "cancel@4", "cancel@7"))
    fam["D"] = {"charts": len(cp.charts), "exhaustive": True}

    # --- E(n, m): bounded-exhaustive
    def add_E(n, m, frac, maxlen, tl=False):
        total = 0
        taken = 0
        for desc in families.enum_E(n, m, tlast_variants=tl):
            total += 1
            if frac < 1.0 and rnd.random() >= frac:
                continue
            c = families.build_E(desc)
            cid = cp.add_chart(c)
            c.tags.append("E(%d,%d)" % (n, m))
            taken += 1
            ws = families.words(c, maxlen)
            # datamodel independence: every chart in lua; a third also in promela / null
            dms = ["lua"]
            if taken % 3 == 0:
                dms = dms_for(c)
            cp.add_cases(cid, dms, ws)
        fam["E(%d,%d)" % (n, m)] = {"enumerated": total, "charts": taken, "exhaustive": taken == total,
                                    "maxword": maxlen}

    if tier == "mini":
        add_E(1, 1, 1.0, 2)
        add_E(2, 1, 1.0, 2)
        add_E(3, 1, 0.2, 2)
        add_E(2, 2, 0.05, 2, tl=True)
        nrand = 150
    elif tier == "quick":
        add_E(1, 0, 1.0, 1)
        add_E(1, 1, 1.0, 3)
        add_E(2, 0, 1.0, 1)
        add_E(2, 1, 1.0, 3)
        add_E(3, 0, 1.0, 1)
        add_E(3, 1, 1.0, 2)
        add_E(2, 2, 0.1, 2, tl=True)
        nrand = 250
    else:
        add_E(1, 0, 1.0, 1)
        add_E(1, 1, 1.0, 4)
        add_E(2, 0, 1.0, 1)
        add_E(2, 1, 1.0, 4)
        add_E(3, 0, 1.0, 1)
        add_E(3, 1, 1.0, 3)
        add_E(2, 2, 1.0, 3, tl=True)
        add_E(4, 0, 1.0, 1)
        add_E(4, 1, 0.15, 2)
        add_E(3, 2, 0.03, 2, tl=True)
        nrand = 6000

    # --- P: transitions in two regions of a parallel (conflict resolution), H: history recorded repeatedly
    add_PH(cp, tier, rnd, ["lua"], modes=("drip",))

    # --- R: random beyond the bound
    rc = families.RandomCharts(sd * 104729 + 17)
    n0 = len(cp.charts)
    for i in range(nrand):
        c = rc.chart()
        cid = cp.add_chart(c)
        ws = [rc.word(c) for _ in range(4)]
        cp.add_cases(cid, dms_for(c)[:2], ws, modes=("drip",) if i % 2 else ("drip", "preload"))
    fam["R"] = {"charts": len(cp.charts) - n0, "exhaustive": False}
    return cp


P_WORDS = [["e"], ["e", "e"], ["e", "back", "e"]]


def add_PH(cp, tier, rnd, dms, modes=("drip",), history=True, pfrac=None):
    """the two targeted families (gen/families.py enum_P, enum_H); shared by all executable campaigns"""
    fam = cp.meta["families"]
    frac = pfrac if pfrac is not None else (1.0 if tier != "mini" else 0.05)
    n = tot = 0
    for desc in families.enum_P():
        tot += 1
        if frac < 1.0 and rnd.random() >= frac:
            continue
        c = families.build_P(desc)
        cid = cp.add_chart(c)
        n += 1
        cp.add_cases(cid, dms, P_WORDS, modes=modes)
    fam["P"] = {"enumerated": tot, "charts": n, "exhaustive": n == tot, "words": P_WORDS}
    if history:
        ws = families.words_H(5 if tier != "thorough" else 6)
        n = 0
        for desc in families.enum_H():
            c = families.build_H(desc)
            cid = cp.add_chart(c)
            n += 1
            cp.add_cases(cid, dms, ws, modes=modes)
        fam["H"] = {"charts": n, "exhaustive": True, "words": len(ws), "maxword": 5 if tier != "thorough" else 6}


# ------------------------------------------------------------------ files
def write_charts(cp, path):
    with open(path, "w") as f:
        for c in cp.charts:
            v = c.to_value()
            v["alphabet"] = [a.split(".") for a in families.alphabet(c)]
            f.write(chartmod.dumps(v) + "\n")


def settle_ms(c):
    """how long the recording waits at the end for delayed sends (0: the chart has none)"""
    if not hasattr(c, "_settle"):
        d = c.max_delay()
        c._settle = 0 if d == 0 else (max(800, 20 * d) if d < 100 else 3 * d)
    return c._settle


def write_batch(cp, cases, engine, path, render_cache):
    with open(path, "wb") as f:
        for cs in cases:
            c = cp.charts[cs["chart"] - 1]
            key = (cs["chart"], cs["dm"])
            if key not in render_cache:
                render_cache[key] = c.render(cs["dm"]).encode()
            x = render_cache[key]
            hdr = chartmod.dumps({"k": "reset", "case": cs["id"], "chart": cs["chart"], "exec": engine,
                                  "dm": cs["dm"], "mode": cs["mode"], "settle": settle_ms(c),
                                  "word": [w.split(".") for w in cs["word"]]})
            f.write(("CASE %d %s %s %d %d %d\n" % (cs["id"], engine, cs["mode"], len(cs["word"]),
                                                   len(c.vars), len(x))).encode())
            f.write(("H " + hdr + "\n").encode())
            for w in cs["word"]:
                f.write(("W " + w + "\n").encode())
            for v in c.vars:
                f.write(("V " + v + "\n").encode())
            f.write(x + b"\n")


def run_campaign(cp, workdir, engines=("large", "fast"), nshards=NCPU, maxsteps=40, variants=()):
    """record + judge; returns result dict (also stored as result.json in workdir)"""
    t0 = time.time()
    os.makedirs(workdir, exist_ok=True)
    for i, cs in enumerate(cp.cases):
        cs["id"] = i + 1
    charts_file = os.path.join(workdir, "charts.ndjson")
    write_charts(cp, charts_file)
    # shard by contiguous ranges (cases of one chart stay together)
    # balance: cases of one chart stay together, charts are dealt to the lightest shard
    # (estimated cost: event-word length, chart size, datamodel)
    bychart = {}
    for cs in cp.cases:
        bychart.setdefault(cs["chart"], []).append(cs)
    def weight(cid, css):
        nst = len(cp.charts[cid - 1].states)
        return sum((len(c["word"]) + 3) * (nst + 4) for c in css)
    groups = sorted(bychart.items(), key=lambda kv: -weight(*kv))
    shards = [[] for _ in range(nshards)]
    loads = [0] * nshards
    for cid, css in groups:
        i = loads.index(min(loads))
        shards[i].extend(css)
        loads[i] += weight(cid, css)
    shards = [sorted(s_, key=lambda c: c["id"]) for s_ in shards if s_]
    rc_cache = {}
    rec_cmds = []
    for si, sh_cases in enumerate(shards):
        for eng in engines:
            b = os.path.join(workdir, "s%02d.%s.batch" % (si, eng))
            write_batch(cp, sh_cases, eng, b, rc_cache)
            rec_cmds.append([os.path.join(BIN, "interp_trace"), b, os.path.join(workdir, "s%02d.%s.ndjson" % (si, eng)), "30"])
    t1 = time.time()
    res = run_parallel(rec_cmds, env={"VERIF_MAXSTEPS": str(maxsteps), "USCXML_NOCACHE_FILES": "YES"})
    for (rc, out), cmd in zip(res, rec_cmds):
        if rc != 0:
            raise RuntimeError("harness failed rc=%s: %s\n%s" % (rc, " ".join(cmd), out[-2000:]))
    t2 = time.time()
    # remove batch files early (disk)
    for cmd in rec_cmds:
        os.remove(cmd[1])

    # judge: Trace_Step per (shard, engine); Lockstep per shard (main + raw)
    cfgp = os.path.join(workdir, "Trace_Step.cfg")
    write_cfg(cfgp, ["SPECIFICATION TraceSpec",
                     "CONSTANT Variants = {%s}" % ",".join('"%s"' % v for v in variants),
                     "CHECK_DEADLOCK FALSE", "POSTCONDITION Consumed"])
    jobs = []
    for si in range(len(shards)):
        for eng in engines:
            tr = os.path.join(workdir, "s%02d.%s.ndjson" % (si, eng))
            md = os.path.join(workdir, "meta.s%02d.%s" % (si, eng))
            cmd = tlc_cmd("Trace_Step.tla", cfgp, md)
            cmd[cmd.index("-config") + 1] = cfgp
            jobs.append(("step", si, eng, cmd, {"CHARTS": charts_file, "TRACE": tr}))
            if eng == engines[0]:
                # the raw callback stream of the second engine is compared line by line with the
                # first one's by Lockstep; it is validated on its own only where they differ (below)
                jobs.append(("monitor", si, eng,
                             tlc_cmd("Trace_Monitor.tla", "Trace_Monitor.cfg", os.path.join(workdir, "meta.s%02d.%s.mon" % (si, eng))),
                             {"TRACE": tr + ".raw"}))
        if len(engines) == 2:
            for suffix, kind in (("", "lock"), (".raw", "lockraw")):
                a = os.path.join(workdir, "s%02d.%s.ndjson%s" % (si, engines[0], suffix))
                b = os.path.join(workdir, "s%02d.%s.ndjson%s" % (si, engines[1], suffix))
                md = os.path.join(workdir, "meta.s%02d.%s" % (si, kind))
                jobs.append((kind, si, "pair", tlc_cmd("Lockstep.tla", "Lockstep.cfg", md),
                             {"TRACEA": a, "TRACEB": b, "PROP": "C03"}))
    outs = run_parallel([j[3] for j in jobs], env=[j[4] for j in jobs], timeout=9000)
    t3 = time.time()
    verdicts = []
    states = 0
    lines = 0
    failures = []
    action_counts = {}
    for j, (rc, out) in zip(jobs, outs):
        p = parse_tlc(out)
        states += p["distinct"]
        for k, n in p["counts"].items():
            action_counts[k] = action_counts.get(k, 0) + n
        ok = p["ok"] and p["error"] is None
        if j[0].startswith("lock") and '"LOCKSTEP-DONE"' not in out:
            ok = False
        if not ok:
            failures.append({"job": j[0], "shard": j[1], "exec": j[2], "rc": rc, "tail": out[-1500:]})
        for v in p["verdicts"]:
            v["judge"] = j[0]
            if j[0] == "lockraw":
                v["why"] = "raw:" + v["why"]
            verdicts.append(v)
        shutil.rmtree(j[3][j[3].index("-metadir") + 1], ignore_errors=True)
    # raw streams of the second engine where Lockstep found them different from the first engine's
    if len(engines) == 2:
        diff_cases = set(v["case"] for v in verdicts if v.get("judge") == "lockraw")
        if diff_cases:
            sub = os.path.join(workdir, "mon.%s.diff.raw" % engines[1])
            with open(sub, "w") as outf:
                for si in range(len(shards)):
                    keep = False
                    with open(os.path.join(workdir, "s%02d.%s.ndjson.raw" % (si, engines[1]))) as f:
                        for line in f:
                            if line.startswith('{"k":"reset"'):
                                keep = json.loads(line)["case"] in diff_cases
                            if keep:
                                outf.write(line)
            md = os.path.join(workdir, "meta.mon.diff")
            (rc, out), = run_parallel([tlc_cmd("Trace_Monitor.tla", "Trace_Monitor.cfg", md)], env={"TRACE": sub}, timeout=9000)
            p = parse_tlc(out)
            states += p["distinct"]
            if not (p["ok"] and p["error"] is None):
                failures.append({"job": "monitor-diff", "shard": -1, "exec": engines[1], "rc": rc, "tail": out[-1500:]})
            for v in p["verdicts"]:
                v["judge"] = "monitor"
                verdicts.append(v)
            shutil.rmtree(md, ignore_errors=True)
    # timing verdicts (a delayed event that did not arrive while the recording waited) are reported only if a second
    # recording of the same case, alone on the machine's cores, repeats them
    timing = [v for v in verdicts if v.get("why") == "delayed-event-lost"]
    if timing:
        byid = {cs["id"]: cs for cs in cp.cases}
        repeated = set()
        for eng in engines:
            ids = sorted(set(v["case"] for v in timing if v["exec"] == eng))
            if not ids:
                continue
            b = os.path.join(workdir, "confirm.%s.batch" % eng)
            tr = os.path.join(workdir, "confirm.%s.ndjson" % eng)
            write_batch(cp, [byid[i] for i in ids], eng, b, {})
            run_parallel([[os.path.join(BIN, "interp_trace"), b, tr, "10"]], env={"VERIF_MAXSTEPS": str(maxsteps), "USCXML_NOCACHE_FILES": "YES"}, timeout=9000)
            md = os.path.join(workdir, "meta.confirm.%s" % eng)
            cmd = tlc_cmd("Trace_Step.tla", cfgp, md)
            cmd[cmd.index("-config") + 1] = cfgp
            (rc, out), = run_parallel([cmd], env={"CHARTS": charts_file, "TRACE": tr}, timeout=9000)
            p = parse_tlc(out)
            shutil.rmtree(md, ignore_errors=True)
            if not (p["ok"] and p["error"] is None):
                failures.append({"job": "confirm", "shard": -1, "exec": eng, "rc": rc, "tail": out[-1500:]})
            repeated |= set((eng, v["case"]) for v in p["verdicts"] if v.get("why") == "delayed-event-lost")
        verdicts = [v for v in verdicts if v.get("why") != "delayed-event-lost" or (v["exec"], v["case"]) in repeated]
    # statistics straight from the recorded files
    ncalls = 0
    for si in range(len(shards)):
        for eng in engines:
            with open(os.path.join(workdir, "s%02d.%s.ndjson" % (si, eng))) as f:
                for line in f:
                    lines += 1
                    if line.startswith('{"k":"call","op":"step"'):
                        ncalls += 1
    result = {"cases": len(cp.cases), "charts": len(cp.charts), "engines": list(engines),
              "traces": len(cp.cases) * len(engines), "trace_lines": lines, "step_calls": ncalls,
              "tlc_states": states, "spec_actions_matched": action_counts, "verdicts": verdicts, "failures": failures,
              "families": cp.meta["families"], "variants": list(variants),
              "t_gen": round(t1 - t0, 1), "t_record": round(t2 - t1, 1), "t_judge": round(t3 - t2, 1)}
    if not failures:      # a run in which the machinery itself failed is never cached
        with open(os.path.join(workdir, "result.json"), "w") as f:
            json.dump(result, f)
    return result


def rejudge(workdir, engine, case_ids, variants, tag):
    """judge only the given cases of one engine again under another variant set;
    returns the set of case ids that still produce a C01 verdict"""
    case_ids = set(case_ids)
    sub = os.path.join(workdir, "rejudge.%s.%s.ndjson" % (engine, tag))
    with open(sub, "w") as out:
        for fn in sorted(os.listdir(workdir)):
            if not fn.endswith(".%s.ndjson" % engine) or not fn.startswith("s"):
                continue
            keep = False
            with open(os.path.join(workdir, fn)) as f:
                for line in f:
                    if line.startswith('{"k":"reset"'):
                        keep = json.loads(line)["case"] in case_ids
                    if keep:
                        out.write(line)
    cfgp = os.path.join(workdir, "Trace_Step.%s.cfg" % tag)
    write_cfg(cfgp, ["SPECIFICATION TraceSpec",
                     "CONSTANT Variants = {%s}" % ",".join('"%s"' % v for v in variants),
                     "CHECK_DEADLOCK FALSE", "POSTCONDITION Consumed"])
    md = os.path.join(workdir, "meta.rejudge.%s.%s" % (engine, tag))
    cmd = tlc_cmd("Trace_Step.tla", cfgp, md)
    (rc, out), = run_parallel([cmd], env={"CHARTS": os.path.join(workdir, "charts.ndjson"), "TRACE": sub})
    p = parse_tlc(out)
    shutil.rmtree(md, ignore_errors=True)
    if not p["ok"] or p["error"]:
        raise RuntimeError("rejudge failed: " + out[-1500:])
    os.remove(sub)
    return set(v["case"] for v in p["verdicts"] if v["property"] in ("C01", "C04", "C06", "C14")), p


# variant sets under which a run is still a behaviour the Recommendation allows
import itertools as _it
_AMB = ("A1prose", "A4doc", "A2raw")
AMBIGUITY_SETS = [c for n in (1, 2, 3) for c in _it.combinations(_AMB, n)]
# uSCXML's own conflict relation: accepted only as the root cause of a known finding
# uSCXML's own transition selection (one pass in post-fix order with the static conflict relation; spec variant
# "uscxml", which always goes with the history-state domain "A2raw"): accepted only as the root cause of a known finding
STATIC_SETS = [("uscxml", "A2raw") + c for n in (0, 1, 2) for c in _it.combinations(("A1prose", "A4doc"), n)]


def classify_c01(result, engine, prop="C01"):
    """behavioural verdicts of one executor -> (unexplained, ambiguous, static) lists of verdicts"""
    workdir = result["workdir"]
    vs = [v for v in result["verdicts"] if v["property"] == prop and v["exec"] == engine]
    open_ids = set(v["case"] for v in vs)
    explained = {}
    for sets, label in ((AMBIGUITY_SETS, "ambiguity"), (STATIC_SETS, "static")):
        for vset in sets:
            if not open_ids:
                break
            still, _ = rejudge(workdir, engine, open_ids, vset, "_".join(vset))
            for cid in open_ids - still:
                explained[cid] = (label, vset)
            open_ids = still
    un, amb, sta = [], [], []
    for v in vs:
        e = explained.get(v["case"])
        if e is None:
            un.append(v)
        elif e[0] == "ambiguity":
            v["variant"] = list(e[1])
            amb.append(v)
        else:
            v["variant"] = list(e[1])
            sta.append(v)
    return un, amb, sta


def cached_campaign(tier, builder=build_interp_campaign, name="interp", **kw):
    """run (or reuse) the campaign for the current implementation + machinery"""
    ensure_build()
    key = "%s-%s-%d-%s" % (name, tier, seed(), impl_hash())
    base = os.path.join(OUT, "cache")
    os.makedirs(base, exist_ok=True)
    workdir = os.path.join(base, key)
    lock = open(os.path.join(base, key + ".lock"), "w")
    fcntl.flock(lock, fcntl.LOCK_EX)
    try:
        rp = os.path.join(workdir, "result.json")
        if os.path.exists(rp):
            with open(rp) as f:
                r = json.load(f)
            r["cached"] = True
        else:
            # drop caches of other implementations / machinery versions (disk)
            for d in os.listdir(base):
                if d.startswith("%s-%s-" % (name, tier)) and d != key and not d.endswith(".lock"):
                    shutil.rmtree(os.path.join(base, d), ignore_errors=True)
            cp = builder(tier, seed())
            r = run_campaign(cp, workdir, **kw)
            r["cached"] = False
        r["workdir"] = workdir
        return r
    finally:
        fcntl.flock(lock, fcntl.LOCK_UN)
        lock.close()
