"""C11: invoked sessions start, communicate and stop as specified.
Invoke.tla (parent stop() vs the child's run loop and the parent-queue gate) is model-checked for
done-at-most-once, done-only-if-finished-on-its-own, silence after cancel, and termination of stop();
real runs of a parent with an inline invoked child (three child behaviours x autoforward x finalize x
seeded scripts of parent events and pauses; the monitor is copied to the invoked session) are validated
by Trace_Invoke.tla against the same abstract state."""
import collections, json, os, time
from vlib import *


def run(pid, tier):
    t0 = time.time()
    ensure_build()
    wd = os.path.join(OUT, "c11")
    os.makedirs(wd, exist_ok=True)
    rd = os.path.join(OUT, "replay")
    os.makedirs(rd, exist_ok=True)
    for fn in os.listdir(rd):
        if fn.startswith("C11-"):
            os.remove(os.path.join(rd, fn))
    known = [k for k in load_known() if k["property"] == pid]
    hits = collections.OrderedDict()
    mc = []
    for n in (0, 2, 99):
        (rc, out), = run_parallel([tlc_cmd("Invoke.tla", "Invoke_%d.cfg" % n, os.path.join(wd, "meta"), workers=2)], timeout=600)
        p = parse_tlc(out)
        if not p["ok"]:
            print(out[-2500:])
            print("MODEL FAILURE / property violated: Invoke.tla ChildSteps=%d" % n)
            sys.exit(2)
        mc.append({"child_steps": n, "distinct": p["distinct"], "generated": p["states"]})
    nruns = 32 if tier == "quick" else 480      # multiples of the 16 scenario combinations
    jobs = []
    for i in range(NCPU):
        tr = os.path.join(wd, "inv%02d.ndjson" % i)
        jobs.append((tr, [os.path.join(BIN, "mt_invoke"), tr, str(nruns), str(seed() * 60 + i)]))
    res = run_parallel([j[1] for j in jobs], timeout=3000)
    for (rc, out), j in zip(res, jobs):
        if rc != 0:
            print(out[-1000:])
            print("HARNESS FAILURE: mt_invoke")
            sys.exit(2)

    def judge(paths):
        # every trace is judged twice: runs of scenario "one" by Trace_Invoke, runs of scenario "all" (session end) by Trace_InvokeAll
        mods = ["Trace_Invoke", "Trace_InvokeAll"]
        outs = run_parallel([tlc_cmd(m + ".tla", m + ".cfg", os.path.join(wd, "meta%s%02d" % (m, i))) for m in mods for i in range(len(paths))],
                            env=[{"TRACE": p_} for m in mods for p_ in paths], timeout=1800)
        vs, st = [], 0
        for (rc, out), p_ in zip(outs, paths + paths):
            p = parse_tlc(out)
            if not p["ok"] or p["error"]:
                print(out[-2000:])
                print("MODEL FAILURE: Trace_Invoke")
                sys.exit(2)
            st += p["distinct"]
            for v in p["verdicts"]:
                if v["property"] != "C11":
                    continue          # the monitor-bracket rule on these recordings belongs to C13's check
                v["trace"] = p_
                vs.append(v)
        return vs, st
    verdicts, tstates = judge([j[0] for j in jobs])
    # schedule dependent: report only what a re-run of the same configuration repeats
    confirmed = []
    if verdicts:
        traces = sorted(set(v["trace"] for v in verdicts))
        re_jobs = []
        for tr in traces:
            j = next(j for j in jobs if j[0] == tr)
            cmd = list(j[1])
            cmd[1] = tr + ".rerun"
            re_jobs.append(cmd)
        run_parallel(re_jobs, timeout=3000)
        again, _ = judge([c[1] for c in re_jobs])
        whys = set(v["why"] for v in again)
        confirmed = [v for v in verdicts if v["why"] in whys]
    viol = []
    for v in confirmed:
        k = next((k for k in known if k.get("signature") == v["why"]), None)
        if k:
            hits.setdefault(k["id"], [k, 0])[1] += 1
        else:
            viol.append(v)
    paths = []
    if viol:
        rp = os.path.join(rd, "C11-invoke.json")
        with open(rp, "w") as f:
            json.dump({"property": "C11", "kind": "mt_invoke", "verdicts": viol[:50]}, f, indent=1)
        paths.append(rp)
    stats = collections.Counter()
    for j in jobs:
        with open(j[0]) as f:
            for line in f:
                for key, pat in (("done.invoke processed", '"bPE","a":"done.invoke.K"'), ("child events processed by parent", '"r":"P","cb":"bPE","a":"c.'),
                                 ("uninvokes", '"bUI"'), ("invokes", '"bIV"'), ("finalize runs", "log:fin"), ("sends of a cancelled child", "send:c.late")):
                    if pat in line:
                        stats[key] += 1
    cov = {"states": sum(m["distinct"] for m in mc) + tstates, "transitions": sum(m["generated"] for m in mc) + tstates,
           "traces_validated_against_impl": nruns * NCPU,
           "samples": [{"child": "B (finishes after three go events)", "autoforward": False, "finalize": True, "script": ["fwd", "leave", "back", "fwd", "fwd", "fwd"]}],
           "model_checking": mc, "observed": dict(stats), "unconfirmed_schedule_dependent_verdicts": len(verdicts) - len(confirmed)}
    write_evidence(pid, tier, "model_checking", cov, time.time() - t0, len(viol),
                   ["one invoke per parent, inline <content> child, null datamodel; params/namelist/donedata payloads are not covered",
                    "data races on the invoker's plain bool flags (_isActive, _isStarted) are a TSan matter, not covered",
                    "a verdict is reported only if a re-run of the same seeded configuration repeats its kind"])
    finish(pid, paths, ["%s (%d)" % (h[0]["what"], h[1]) for h in hits.values()])
