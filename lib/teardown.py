"""C10 concurrent half: Teardown.tla + create/step/destroy cycles of the real interpreter."""
import json, os
from vlib import *


def run(wd, tier, known, hits):
    info = {}
    viol = []
    # 1. the model: with the wake-up by an activated event destruction always returns (liveness under
    #    weak fairness); without it TLC must find the lost wake-up -- this shows the model discriminates
    for cfg, expect_ok in (("Teardown.cfg", True), ("Teardown_unfixed.cfg", False)):
        (rc, out), = run_parallel([tlc_cmd("Teardown.tla", cfg, os.path.join(wd, "meta_td"), workers=1)], timeout=600)
        p = parse_tlc(out)
        violated = "was violated" in out or "is violated" in out
        if expect_ok and not p["ok"]:
            print(out[-2500:])
            print("MODEL FAILURE / property violated: Teardown.tla with WakeByEvent = TRUE")
            sys.exit(2)
        if not expect_ok and not violated:
            print("MODEL FAILURE: Teardown.tla does not exhibit the lost wake-up for WakeByEvent = FALSE (vacuous model)")
            sys.exit(2)
        info.setdefault("model", []).append({"cfg": cfg, "distinct": p["distinct"], "generated": p["states"],
                                             "termination": "holds" if expect_ok else "violated (expected: shows the lost wake-up)"})
    info["states"] = sum(m["distinct"] for m in info["model"])
    info["transitions"] = sum(m["generated"] for m in info["model"])
    # 2. the real code: the counterexample schedule forced through the hooks, and random schedules
    nforced = 12 if tier == "quick" else 60
    nrandom = 25 if tier == "quick" else 600      # per process, 16 processes
    jobs = [[os.path.join(BIN, "mt_teardown"), os.path.join(wd, "td_forced.ndjson"), str(nforced), str(seed()), "forced"]]
    for i in range(NCPU - 1):
        jobs.append([os.path.join(BIN, "mt_teardown"), os.path.join(wd, "td_random%02d.ndjson" % i), str(nrandom), str(seed() * 50 + i), "random"])
    res = run_parallel(jobs, timeout=3000)
    for (rc, out), j in zip(res, jobs):
        if rc != 0:
            print(out[-1000:])
            print("HARNESS FAILURE: mt_teardown")
            sys.exit(2)
    bad = []
    total = 0
    for j in jobs:
        with open(j[1]) as f:
            for line in f:
                r = json.loads(line)
                total += 1
                if r["exit"] != "ok":
                    bad.append(r)
    # a watchdog timeout is only reported if a re-run of the same schedule repeats it
    confirmed = []
    if bad:
        modes = set(b["mode"] for b in bad)
        for mode in modes:
            tr = os.path.join(wd, "td_rerun_%s.ndjson" % mode)
            n = 12 if mode == "forced" else 400
            run_parallel([[os.path.join(BIN, "mt_teardown"), tr, str(n), str(seed() + 1), mode]], timeout=3000)
            with open(tr) as f:
                again = [json.loads(l) for l in f if '"exit":"ok"' not in l]
            if again:
                confirmed += [b for b in bad if b["mode"] == mode]
    for b in confirmed:
        sig = "teardown-hang-" + b["mode"] if b["exit"] == "timeout" else "teardown-" + b["exit"]
        k = next((k for k in known if k.get("signature") == sig), None)
        if k:
            hits.setdefault(k["id"], [k, 0])[1] += 1
        else:
            viol.append({"property": "C10", "kind": "teardown", "schedule": b["mode"], "cycle": b})
    info["runs"] = total
    info["not_ok"] = len(bad)
    info["confirmed_by_rerun"] = len(confirmed)
    info["forced_schedule"] = "timer thread parked between its test of _isStarted and event_base_loop() until stop() has requested the loop break (Teardown.tla counterexample)"
    return info, viol
