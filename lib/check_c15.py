"""C15: Data <-> JSON is lossless and its parser robust.
Round trip: TLC enumerates the bounded domain of Data values (spec/MC_DataJson.tla); the oracle is the
identity fromJSON(toJSON(d)) = d (on Data::operator==) and Event(Data(e)) = e -- TLC contributes the
bounded-exhaustive domain, nothing more.  Robustness is a side condition, not a TLA+ property: every
JSON text of the round trip, its prefixes and single-byte deletions / duplications / substitutions, and
all strings over the structural alphabet up to a length bound are parsed by an ASan+UBSan build of the
parser (Data.cpp + jsmn.c instrumented) in forked children with a watchdog."""
import collections, itertools, json, os, random, subprocess, time
from vlib import *

CH = {1: b'"', 2: b"\\", 3: b"/", 4: b"\b", 5: b"\f", 6: b"\n", 7: b"\r", 8: b"\t", 9: b"\v",
      10: "é".encode(), 11: b"0", 12: b"a", 13: b" "}
NUMS = {1: b"0", 2: b"7", 3: b"-3", 4: b"1.5", 5: b"12"}


def hx(b):
    return b.hex() if b else "-"


def enc(v):
    t = v["t"]
    if t == "str":
        return "A V " + hx(b"".join(CH[c] for c in v["c"]))
    if t == "num":
        return "A I " + hx(NUMS[v["n"]])
    if t == "arr":
        return "L %d" % len(v["e"]) + "".join(" " + enc(x) for x in v["e"])
    if t == "map":
        return "M %d" % len(v["k"]) + "".join(" K %s %s" % (hx(b"".join(CH[c] for c in k)), enc(x)) for k, x in zip(v["k"], v["v"]))
    raise ValueError(t)


def feature(v):
    """which characters occur (for known-finding signatures)"""
    out = set()

    def walk(x):
        if x["t"] == "str":
            out.update(x["c"])
        elif x["t"] == "arr":
            for e in x["e"]:
                walk(e)
        elif x["t"] == "map":
            for k in x["k"]:
                out.update(k)
            for e in x["v"]:
                walk(e)
    walk(v)
    return out


def run(pid, tier):
    t0 = time.time()
    ensure_build()
    wd = os.path.join(OUT, "c15")
    os.makedirs(wd, exist_ok=True)
    rd = os.path.join(OUT, "replay")
    os.makedirs(rd, exist_ok=True)
    for fn in os.listdir(rd):
        if fn.startswith("C15-"):
            os.remove(os.path.join(rd, fn))
    (rc, out), = run_parallel([tlc_cmd("MC_DataJson.tla", "MC_DataJson.cfg", os.path.join(wd, "meta"))],
                              env={"LEVEL": "1" if tier == "quick" else "2"}, timeout=900)
    p = parse_tlc(out)
    vals = [json.loads(json.loads(l)[4:]) for l in out.splitlines() if l.startswith('"VEC ')]
    if not p["ok"] or not vals:
        print(out[-2000:])
        print("MODEL FAILURE: MC_DataJson")
        sys.exit(2)
    vf = os.path.join(wd, "values.txt")
    with open(vf, "w") as f:
        for v in vals:
            f.write(enc(v) + "\n")
    r = sh([os.path.join(BIN, "json_replay_asan"), "rt", vf], stdout=subprocess.PIPE, stderr=subprocess.PIPE, text=True,
           env=dict(os.environ, ASAN_OPTIONS="detect_leaks=0"))
    if "DONE" not in r.stdout:
        print(r.stdout[-800:], r.stderr[-1500:])
        print("HARNESS FAILURE / sanitizer report in the round trip (json_replay_asan rt)")
        sys.exit(2)
    diffs = []
    texts = []
    for line in r.stdout.splitlines():
        parts = line.split()
        if parts[0] in ("RT", "EV") and parts[2] != "ok":
            i = int(parts[1]) - 1
            diffs.append({"kind": parts[0], "outcome": parts[2], "value": vals[i], "json_hex": parts[3] if len(parts) > 3 else "",
                          "chars": sorted(feature(vals[i]))})
    # JSON texts for the robustness part: re-render from the plain build
    r2 = sh([os.path.join(BIN, "json_replay"), "rt", vf], stdout=subprocess.PIPE, stderr=subprocess.DEVNULL, text=True)
    # robustness inputs
    rnd = random.Random(seed())
    inputs = set()
    alphabet = [b"{", b"}", b"[", b"]", b'"', b"\\", b",", b":", b"0", b"a", b" "]
    maxlen = 5 if tier == "quick" else 6
    for L in range(1, maxlen + 1):
        for w in itertools.product(alphabet, repeat=L):
            if w[0] in (b"{", b"[", b" "):       # anything else is rejected before the tokenizer
                inputs.add(b"".join(w))
    seeds = [b'{"a":"b"}', b'[1,2,3]', b'{"a":[1,{"b":"c\\n"}],"d":0}', b'[[],{},"",0]', b'{"\\"":"\\\\","e\\u00e9":[1.5,-3]}',
             b'["' + "é".encode() + b'\\t\\b\\f"]', b'{"k":{"k":{"k":[[[[1]]]]}}}']
    for s in seeds:
        for i in range(len(s) + 1):
            inputs.add(s[:i])
        for i in range(len(s)):
            inputs.add(s[:i] + s[i + 1:])
            inputs.add(s[:i] + s[i:i + 1] + s[i:])
            for a in alphabet:
                inputs.add(s[:i] + a + s[i + 1:])
    for _ in range(2000 if tier == "quick" else 40000):
        s = bytearray(rnd.choice(seeds))
        for _ in range(rnd.randint(1, 4)):
            op = rnd.randint(0, 2)
            i = rnd.randrange(len(s)) if s else 0
            if op == 0 and s:
                del s[i]
            elif op == 1:
                s.insert(i, rnd.choice(b'{}[]",:\\0a \x00\xff\n'))
            elif s:
                s[i] = rnd.choice(b'{}[]",:\\0a \x00\xff\n')
        inputs.add(bytes(s))
    inputs = sorted(inputs)
    nsh = NCPU
    for i in range(nsh):
        with open(os.path.join(wd, "in%02d.txt" % i), "w") as f:
            for b in inputs[i::nsh]:
                f.write(hx(b) + "\n")
    res = run_parallel([[os.path.join(BIN, "json_replay_asan"), "parse", os.path.join(wd, "in%02d.txt" % i)] for i in range(nsh)],
                       env={"ASAN_OPTIONS": "detect_leaks=0:abort_on_error=0:exitcode=66", "UBSAN_OPTIONS": "halt_on_error=1:exitcode=67"}, timeout=3000)
    crashes = []
    parsed = 0
    for i, (rc, o) in enumerate(res):
        if "DONE" not in o:
            print(o[-1500:])
            print("HARNESS FAILURE: json_replay_asan parse")
            sys.exit(2)
        shard = inputs[i::nsh]
        for line in o.splitlines():
            parts = line.split()
            if parts[0] == "P":
                parsed += 1
                if parts[2] == "CRASH":
                    crashes.append({"input_hex": shard[int(parts[1])].hex(), "status": parts[3]})
    known = [k for k in load_known() if k["property"] == pid]
    hits = collections.OrderedDict()
    viol = []
    for d in diffs:
        sig = "roundtrip:" + d["kind"] + ":" + ("vt" if 9 in d["chars"] else "other")
        k = next((k for k in known if k.get("signature") == sig), None)
        if k:
            hits.setdefault(k["id"], [k, 0])[1] += 1
        else:
            d["signature"] = sig
            viol.append(d)
    for c in crashes:
        k = next((k for k in known if k.get("signature") == "parser-crash"), None)
        if k:
            hits.setdefault(k["id"], [k, 0])[1] += 1
        else:
            viol.append(dict(c, signature="parser-crash"))
    paths = []
    if viol:
        rp = os.path.join(rd, "C15-json.json")
        with open(rp, "w") as f:
            json.dump({"property": "C15", "kind": "json", "cases": viol[:200]}, f, indent=1)
        paths.append(rp)
    for i in range(nsh):
        os.remove(os.path.join(wd, "in%02d.txt" % i))
    cov = {"evaluations": 2 * len(vals) + parsed, "distinct_nontrivial": len(vals) + len(inputs),
           "rule": "round trip: every Data value of MC_DataJson's domain (strings of <= 2 characters over 13 characters incl. quote, backslash, slash, "
                   "the control characters b f n r t v, a 2-byte UTF-8 character; numbers; arrays and maps; %s) through toJSON/fromJSON and through Event->Data->Event; "
                   "robustness: all strings over {{ }} [ ] \" \\ , : 0 a space}} of length <= %d that start a JSON text, every prefix / single-byte deletion, duplication, "
                   "substitution of 7 seed texts, and seeded random multi-byte mutations, parsed under ASan+UBSan; distinct = distinct values + distinct inputs"
                   % ("one level of containers" if tier == "quick" else "containers of two elements and one level of nesting", maxlen),
           "samples": [{"value": vals[len(vals) // 3]}, {"parser_input_hex": inputs[len(inputs) // 2].hex()}],
           "roundtrip_values": len(vals), "roundtrip_differences": len(diffs), "parser_inputs": len(inputs), "parser_crashes": len(crashes),
           "tlc_states": p["distinct"], "exhaustive": True}
    write_evidence(pid, tier, "exploration", cov, time.time() - t0, len(viol),
                   ["equality is Data::operator== (an empty container equals null)", "top-level values are containers: Data::fromJSON only accepts objects and arrays (RFC 4627 JSON texts)",
                    "out-of-bounds freedom is decided by AddressSanitizer/UBSan on the instrumented parser, not by the specification"])
    finish(pid, paths, ["%s (%d)" % (h[0]["what"], h[1]) for h in hits.values()])
