"""Generated-C campaign (C04; also feeds C02): charts -> ChartToC (in-process driver xform) ->
gcc with the scaffold (plain and ASan/UBSan) -> run with event words -> ndjson traces ->
TLC (Trace_Step with the coarse uscxml_step relation)."""
import fcntl
import json
import os
import random
import shutil
import subprocess
import time

from vlib import *
import campaign
import chart as chartmod
import cexpr
import families
import directed

SCAFFOLD = os.path.join(ROOT, "harness", "genc_scaffold.c")


def build_genc_campaign(tier, sd):
    """same families as the interpreter campaign, fewer words (one executor, compile cost per chart)"""
    rnd = random.Random(sd * 31 + 5)
    cp = campaign.Campaign("genc", tier)
    fam = cp.meta["families"]
    for c in directed.charts():
        if c.max_delay() > 0 or c.arrays:
            continue       # the scaffold has no timer and no <foreach> support
        cid = cp.add_chart(c)
        c.tags.append("D:" + c.name)
        ws = families.words(c, 2)
        for w in directed.WORDS.get(c.name, []):
            if w not in ws:
                ws.append(w)
        cp.add_cases(cid, ["lua"], ws, modes=("drip", "preload"))
    fam["D"] = {"charts": len(cp.charts), "exhaustive": True}

    def add_E(n, m, frac, maxlen, tl=False):
        total = taken = 0
        for desc in families.enum_E(n, m, tlast_variants=tl):
            total += 1
            if frac < 1.0 and rnd.random() >= frac:
                continue
            c = families.build_E(desc)
            cid = cp.add_chart(c)
            c.tags.append("E(%d,%d)" % (n, m))
            taken += 1
            cp.add_cases(cid, ["lua"], families.words(c, maxlen))
        fam["E(%d,%d)" % (n, m)] = {"enumerated": total, "charts": taken, "exhaustive": taken == total, "maxword": maxlen}

    if tier == "mini":
        add_E(2, 1, 1.0, 2)
        nrand = 40
    elif tier == "quick":
        add_E(1, 1, 1.0, 2)
        add_E(2, 1, 1.0, 2)
        add_E(3, 1, 0.25, 2)
        add_E(2, 2, 0.03, 2, tl=True)
        nrand = 150
    else:
        add_E(1, 1, 1.0, 3)
        add_E(2, 1, 1.0, 3)
        add_E(3, 1, 1.0, 2)
        add_E(2, 2, 0.5, 2, tl=True)
        add_E(4, 1, 0.05, 2)
        nrand = 2500
    campaign.add_PH(cp, tier, rnd, ["lua"], modes=("drip",), pfrac=0.5 if tier == "quick" else None)
    rc = families.RandomCharts(sd * 7331 + 3)
    n0 = len(cp.charts)
    for i in range(nrand):
        c = rc.chart()
        if c.arrays:
            continue
        cid = cp.add_chart(c)
        cp.add_cases(cid, ["lua"], [rc.word(c) for _ in range(3)], modes=("drip",) if i % 3 else ("drip", "preload"))
    # big charts: state / transition bit arrays cross byte boundaries
    rb = families.RandomCharts(sd * 977 + 11)
    rb.big = True
    fam["R"] = {"charts": len(cp.charts) - n0, "exhaustive": False}
    return cp


def run_genc(cp, workdir, sanitize=False, maxsteps=40):
    t0 = time.time()
    os.makedirs(workdir, exist_ok=True)
    for i, cs in enumerate(cp.cases):
        cs["id"] = i + 1
    charts_file = os.path.join(workdir, "charts.ndjson")
    campaign.write_charts(cp, charts_file)
    gen = os.path.join(workdir, "gen")
    os.makedirs(gen, exist_ok=True)
    nsh = NCPU
    # 1. transform (one xform process per shard of charts)
    batches = [[] for _ in range(nsh)]
    for c in cp.charts:
        batches[c.cid % nsh].append(c)
    cmds = []
    for i, b in enumerate(batches):
        bp = os.path.join(gen, "xf%02d.batch" % i)
        with open(bp, "wb") as f:
            for c in b:
                y = c.render("lua").encode()
                f.write(("DOC m%d c %d\n" % (c.cid, len(y))).encode() + y + b"\n")
                with open(os.path.join(gen, "m%d_exprs.h" % c.cid), "w") as h:
                    h.write(cexpr.exprs_header(c, "lua"))
        cmds.append([os.path.join(BIN, "xform"), bp, gen])
    res = run_parallel(cmds)
    xfail = {}
    for rc, out in res:
        for line in out.splitlines():
            if line.startswith("FAIL "):
                xfail[int(line.split()[1][1:])] = line
    t1 = time.time()
    # 2. compile
    flags = "-O0 -w"
    if sanitize:
        flags = "-O0 -w -g -fsanitize=address,undefined -fno-sanitize-recover=all"
    ccmds = []
    cids = []
    for c in cp.charts:
        if c.cid in xfail:
            continue
        cids.append(c.cid)
        ccmds.append(["sh", "-c", "gcc %s -DMACHINE_FILE='\"%s/m%d.c\"' -DEXPRS_FILE='\"%s/m%d_exprs.h\"' %s -o %s/m%d.bin 2>&1 | head -20"
                      % (flags, gen, c.cid, gen, c.cid, SCAFFOLD, gen, c.cid)])
    cres = run_parallel(ccmds)
    cfail = {}
    for cid, (rc, out) in zip(cids, cres):
        if not os.path.exists(os.path.join(gen, "m%d.bin" % cid)):
            cfail[cid] = out[-600:]
    t2 = time.time()
    # 3. run the cases: one runner script per shard writing a trace file
    bychart = {}
    for cs in cp.cases:
        bychart.setdefault(cs["chart"], []).append(cs)
    shards = [[] for _ in range(nsh)]
    for k, (cid, css) in enumerate(sorted(bychart.items())):
        shards[k % nsh].extend(css)
    rcmds = []
    for si, css in enumerate(shards):
        sp = os.path.join(workdir, "run%02d.sh" % si)
        tr = os.path.join(workdir, "s%02d.genc.ndjson" % si)
        with open(sp, "w") as f:
            f.write("#!/bin/sh\nexport VERIF_MAXSTEPS=%d ASAN_OPTIONS=detect_leaks=0:abort_on_error=0:exitcode=97 UBSAN_OPTIONS=halt_on_error=1:exitcode=98\n: > %s\n" % (maxsteps, tr))
            for cs in css:
                hdr = chartmod.dumps({"k": "reset", "case": cs["id"], "chart": cs["chart"], "exec": "genc", "dm": "lua",
                                      "mode": cs["mode"], "word": [w.split(".") for w in cs["word"]]})
                f.write("echo '%s' >> %s\n" % (hdr, tr))
                if cs["chart"] in xfail or cs["chart"] in cfail:
                    why = "transform-failed" if cs["chart"] in xfail else "compile-failed"
                    f.write("echo '{\"k\":\"end\",\"steps\":-1,\"dm\":[],\"last\":\"?\",\"limit\":false,\"exit\":\"%s\"}' >> %s\n" % (why, tr))
                    continue
                words = " ".join("'%s'" % w for w in cs["word"])
                f.write("timeout 10 %s/m%d.bin %s %s > %s.tmp 2> %s.err; rc=$?\n" % (gen, cs["chart"], cs["mode"], words, tr, tr))
                # the binary writes an unterminated end object as its last line iff it got that far
                f.write("if tail -c 200 %s.tmp | grep -q '\"k\":\"end\"'; then cat %s.tmp >> %s; "
                        "if [ $rc -eq 0 ]; then echo ',\"exit\":\"ok\"}' >> %s; else echo \",\\\"exit\\\":\\\"exit $rc\\\"}\" >> %s; fi; "
                        "else grep -v '^$' %s.tmp | grep '}$' >> %s; "
                        "san=$(grep -m1 -o 'AddressSanitizer: [a-z-]*\\|runtime error: [a-z -]*' %s.err | tr -d '\"' | head -1); "
                        "echo \"{\\\"k\\\":\\\"end\\\",\\\"steps\\\":-1,\\\"dm\\\":[],\\\"last\\\":\\\"?\\\",\\\"limit\\\":false,\\\"exit\\\":\\\"exit $rc $san\\\"}\" >> %s; fi\n"
                        % (tr, tr, tr, tr, tr, tr, tr, tr, tr))
        os.chmod(sp, 0o755)
        rcmds.append(["sh", sp])
    run_parallel(rcmds)
    t3 = time.time()
    # 4. judge
    cfgp = os.path.join(workdir, "Trace_Step.cfg")
    write_cfg(cfgp, ["SPECIFICATION TraceSpec", "CONSTANT Variants = {}", "CHECK_DEADLOCK FALSE", "POSTCONDITION Consumed"])
    jobs = []
    for si in range(nsh):
        tr = os.path.join(workdir, "s%02d.genc.ndjson" % si)
        if not os.path.exists(tr) or os.path.getsize(tr) == 0:
            continue
        cmd = tlc_cmd("Trace_Step.tla", cfgp, os.path.join(workdir, "meta.s%02d" % si))
        cmd[cmd.index("-config") + 1] = cfgp
        jobs.append((si, cmd, {"CHARTS": charts_file, "TRACE": tr}))
    outs = run_parallel([j[1] for j in jobs], env=[j[2] for j in jobs], timeout=3000)
    verdicts, failures = [], []
    states = 0
    lines = 0
    for j, (rc, out) in zip(jobs, outs):
        p = parse_tlc(out)
        states += p["distinct"]
        if not p["ok"] or p["error"]:
            failures.append({"shard": j[0], "rc": rc, "tail": out[-1500:]})
        verdicts.extend(p["verdicts"])
        shutil.rmtree(os.path.join(workdir, "meta.s%02d" % j[0]), ignore_errors=True)
        with open(j[2]["TRACE"]) as f:
            lines += sum(1 for _ in f)
    t4 = time.time()
    shutil.rmtree(gen, ignore_errors=True)
    result = {"cases": len(cp.cases), "charts": len(cp.charts), "programs": len(cp.charts) - len(xfail) - len(cfail),
              "transform_failed": {str(k): v for k, v in xfail.items()}, "compile_failed": {str(k): v for k, v in cfail.items()},
              "sanitize": sanitize, "trace_lines": lines, "tlc_states": states, "verdicts": verdicts, "failures": failures,
              "families": cp.meta["families"],
              "t_transform": round(t1 - t0, 1), "t_compile": round(t2 - t1, 1), "t_run": round(t3 - t2, 1), "t_judge": round(t4 - t3, 1)}
    if not failures:
        with open(os.path.join(workdir, "result.json"), "w") as f:
            json.dump(result, f)
    return result


def cached_genc(tier, sanitize=False):
    ensure_build()
    h = file_hash([os.path.join(HOOKS, "lib", "libuscxml_transform.so.2.0.0"), os.path.join(HOOKS, "lib", "libuscxml.so.2.0.0"),
                   os.path.join(ROOT, "gen"), os.path.join(ROOT, "spec"), os.path.join(ROOT, "harness"),
                   os.path.join(ROOT, "lib", "genc.py"), os.path.join(ROOT, "lib", "campaign.py")])
    name = "genc%s" % ("-san" if sanitize else "")
    key = "%s-%s-%d-%s" % (name, tier, seed(), h)
    base = os.path.join(OUT, "cache")
    os.makedirs(base, exist_ok=True)
    workdir = os.path.join(base, key)
    lock = open(os.path.join(base, key + ".lock"), "w")
    fcntl.flock(lock, fcntl.LOCK_EX)
    try:
        rp = os.path.join(workdir, "result.json")
        if os.path.exists(rp):
            with open(rp) as f:
                r = json.load(f)
        else:
            for d in os.listdir(base):
                if d.startswith("%s-%s-" % (name, tier)) and d != key and not d.endswith(".lock"):
                    shutil.rmtree(os.path.join(base, d), ignore_errors=True)
            r = run_genc(build_genc_campaign(tier, seed()), workdir, sanitize=sanitize)
        r["workdir"] = workdir
        return r
    finally:
        fcntl.flock(lock, fcntl.LOCK_UN)
        lock.close()
