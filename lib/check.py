#!/usr/bin/env python3
"""bin/check <ID> quick|thorough   |   bin/check replay <file>"""
import sys, os
sys.path.insert(0, os.path.dirname(os.path.abspath(__file__)))


def main():
    if len(sys.argv) < 3:
        print(__doc__)
        sys.exit(2)
    if sys.argv[1] == "replay":
        import replay
        sys.exit(replay.main(sys.argv[2]))
    pid, tier = sys.argv[1], sys.argv[2]
    os.environ["VERIF_TIER"] = tier
    if pid in ("C01", "C02", "C03", "C13"):
        import checks_interp as m
    elif pid == "C12":
        import check_c12 as m
    elif pid == "C04":
        import check_c04 as m
    elif pid == "C05":
        import check_c05 as m
    elif pid == "C06":
        import check_c06 as m
    elif pid == "C18":
        import check_c18 as m
    elif pid == "C20":
        import check_c20 as m
    elif pid == "C07":
        import check_c07 as m
    elif pid == "C14":
        import check_c14 as m
    elif pid == "C08":
        import check_c08 as m
    elif pid == "C10":
        import check_c10 as m
    elif pid == "C09":
        import check_c09 as m
    elif pid == "C11":
        import check_c11 as m
    elif pid == "C15":
        import check_c15 as m
    elif pid == "C16":
        import check_c16 as m
    elif pid == "C19":
        import check_c19 as m
    elif pid == "C17":
        import check_c17 as m
    else:
        print("no check for", pid)
        sys.exit(2)
    m.run(pid, tier)


if __name__ == "__main__":
    main()
