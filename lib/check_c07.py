"""C07: errors become error events, never crashes.  Fault enumeration: for every chart of a base
family and every position of every executable block (onentry, onexit, transition, <initial> and
history transitions, <data> initialisation, cond), one variant with a failing element of each
kind injected there; the recorded run must be the specification's (error.* at the right queue
position, the rest of THAT block skipped, the next block executed, interpreter still stepping),
and the process must end normally (forked child; thorough: ASan/UBSan build)."""
import collections, json, os, random, time
from vlib import *
import campaign, families, directed, findings
from chart import *
from checks_interp import write_replay, classified

KINDS = {"lua": ["location", "expr", "sendtype", "sendtarget", "sendtargetinvalid", "cancelnoid"],
         "promela": ["location", "expr", "sendtype", "sendtarget", "div0", "mod0"]}


def blocks_of(c):
    """every executable block of the chart as (description, list object)"""
    out = []
    for n in c.states:
        for i, b in enumerate(n.onentry):
            out.append(("onentry", b))
        for i, b in enumerate(n.onexit):
            out.append(("onexit", b))
    for t in c.trans:
        out.append(("trans:" + t.kind, t.content))
    return out


def decorate(c):
    """give every state and transition a two-element block so that positions are meaningful"""
    for n in c.states:
        if n.kind in ("state", "parallel", "final"):
            n.onentry.append([log("p%da" % n.idx), log("p%db" % n.idx)])
            n.onentry.append([log("q%d" % n.idx)])
            n.onexit.append([log("x%da" % n.idx), log("x%db" % n.idx)])
    for t in c.trans:
        t.content.extend([log("c%da" % t.idx), log("c%db" % t.idx)])
    if "x" not in c.vars:
        c.vars.append("x")
        c.root.data.append(("x", lit(1)))
    c._number()


def build_fault_campaign(tier, sd):
    rnd = random.Random(sd * 17 + 3)
    cp = campaign.Campaign("fault", tier)
    thunks = []
    for f in directed.ALL:
        thunks.append((f.__name__, f))
    for (n, m, frac) in ((1, 1, 1.0), (2, 1, 0.35 if tier == "quick" else 1.0)):
        for desc in families.enum_E(n, m):
            if rnd.random() < frac:
                thunks.append(("E(%d,%d)" % (n, m), (lambda d=desc: families.build_E(d))))
    # two transitions in ONE micro-step (regions of a <parallel>): an error in the first one's content must not
    # touch the second one's -- a sample of the P family, faults in the transitions' blocks only
    pdescs = list(families.enum_P())
    for desc in rnd.sample(pdescs, 16 if tier == "quick" else 48):
        thunks.append(("P", (lambda d=desc: families.build_P(d))))
    nvar = 0
    for name, th in thunks:
        base = th()
        decorate(base)
        nb = len(blocks_of(base))
        for bi in range(nb):
            if name == "P" and not blocks_of(base)[bi][0].startswith("trans:normal"):
                continue
            for pos in (0, 1, 2):
                for dm in ("lua", "promela"):
                    kinds = KINDS[dm]
                    # quick: one kind per (block, position), rotating; thorough: all kinds
                    ks = kinds if tier != "quick" else [kinds[(bi + pos + nvar) % len(kinds)]]
                    for k in ks:
                        c = th()
                        decorate(c)
                        kind, blk = blocks_of(c)[bi]
                        if pos > len(blk):
                            continue
                        op = fault(k)
                        if k in ("div0", "mod0"):
                            op["var"] = "x"
                        blk.insert(pos, op)
                        c._number()
                        c.tags = ["F:" + name, "fault:" + k, "at:%s:%d" % (kind, pos)]
                        cid = cp.add_chart(c)
                        if name == "P":
                            ws = [["e"]]
                        elif name.startswith("d_"):
                            # every single event (not only the first two: the event that fires two regions at
                            # once may be the third) and the chart's first directed word
                            ws = [[]] + [[a] for a in families.alphabet(c)] + [w for w in directed.WORDS.get(name, [])[:1] if len(w) > 1]
                        else:
                            ws = [[]] + [[a] for a in families.alphabet(c)[:2]]
                        cp.add_cases(cid, [dm], ws)
                        nvar += 1
        # failing conditions and data initialisers
        for variant in ("cond", "ifcond", "data", "foreach"):
            c = th()
            decorate(c)
            ok = False
            if variant == "cond":
                for t in c.trans:
                    if t.kind == "normal" and t.cond is None:
                        t.cond = berr()
                        ok = True
                        break
            elif variant == "ifcond":
                for n in c.states:
                    if n.onentry:
                        n.onentry[0].insert(1, if_((berr(), [log("never")]), (TRUE, [log("else")])))
                        ok = True
                        break
            elif variant == "foreach":
                # an error on the second iteration ends the loop and the rest of the block, not the next block
                for n in c.states:
                    if n.onentry:
                        c.arrays["arrF"] = [1, 2, 3]
                        n.onentry[0].insert(1, foreach("arrF", [1, 2, 3], "x",
                                                       [log("fe", var("x")), if_((cmp_("==", var("x"), lit(2)), [fault("expr")])),
                                                        log("fe2", var("x"))]))
                        ok = True
                        break
            else:
                c.vars.append("y")
                c.root.data.append(("y", ierr()))
                ok = True
            if ok:
                c._number()
                c.tags = ["F:" + name, "fault:" + variant]
                cid = cp.add_chart(c)
                cp.add_cases(cid, ["lua", "promela"], [[]] + [[a] for a in families.alphabet(c)[:2]])
    cp.meta["families"]["fault"] = {"base_charts": len(thunks), "variants": len(cp.charts), "exhaustive": tier != "quick"}
    return cp


def run(pid, tier):
    t0 = time.time()
    rd = os.path.join(OUT, "replay")
    os.makedirs(rd, exist_ok=True)
    for fn in os.listdir(rd):
        if fn.startswith(pid + "-"):
            os.remove(os.path.join(rd, fn))
    result = campaign.cached_campaign(tier, builder=build_fault_campaign, name="fault")
    if result["failures"]:
        print(json.dumps(result["failures"][0])[-3000:])
        print("MODEL/HARNESS FAILURE: fault campaign")
        sys.exit(2)
    with open(os.path.join(result["workdir"], "charts.ndjson")) as f:
        charts = [json.loads(l) for l in f]
    known = [k for k in load_known() if k["property"] == pid]
    viol, hits = [], collections.OrderedDict()
    for eng in result["engines"]:
        d = classified(result, eng)
        for v, cls in [(v, "unexplained") for v in d["un"]] + [(v, "static") for v in d["sta"]]:
            if cls == "static":
                continue     # a C01 matter (KF-C01-1), not an error-handling one
            v = dict(v, property="C07")
            k = findings.match(known, v, charts[v["chart"] - 1], {"class": cls})
            if k:
                hits.setdefault(k["id"], [k, 0])[1] += 1
            else:
                viol.append(v)
    for v in result["verdicts"]:
        if v["property"] == "C07":       # abnormal exit of the recording child
            k = findings.match(known, v, charts[v["chart"] - 1], {"class": "exit"})
            if k:
                hits.setdefault(k["id"], [k, 0])[1] += 1
            else:
                viol.append(v)
    kinds = collections.Counter(t for c in charts for t in c["tags"] if t.startswith("fault:"))
    places = collections.Counter(t.split(":")[1] for c in charts for t in c["tags"] if t.startswith("at:"))
    cov = {"evaluations": result["traces"], "distinct_nontrivial": result["charts"],
           "rule": "one chart per (base chart, executable block, position 0..2 in the block, fault kind, datamodel) plus failing transition conditions, "
                   "<if> conditions and <data> initialisers; each run with the empty word and every single event (directed charts: plus their first directed word; P sample: the event that fires both regions), on both engines; a case is distinct by its chart; "
                   "non-trivial: every chart contains exactly one failing element",
           "samples": [{"tags": c["tags"]} for c in charts[:: max(1, len(charts) // 5)][:5]],
           "fault_kinds": dict(kinds), "block_kinds": dict(places), "families": result["families"],
           "trace_lines": result["trace_lines"], "step_calls_validated": result["step_calls"], "tlc_states": result["tlc_states"],
           "spec_actions_matched_by_recorded_steps": result.get("spec_actions_matched", {}),
           "exhaustive": tier != "quick"}
    paths = [write_replay(pid, result, v) for v in viol[:10]]
    write_evidence(pid, tier, "fault_enumeration", cov, time.time() - t0, len(viol),
                   ["memory safety is a side condition of these runs (process exit status; sanitizers in the thorough tier), not a TLA+ property",
                    "arbitrary well-formed XML as document is exercised by C19's validator runs"])
    finish(pid, paths, ["%s (%d cases in this run)" % (h[0]["what"], h[1]) for h in hits.values()])
