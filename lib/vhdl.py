"""VHDL campaign (C18): charts (no history, no data; conditions are free inputs) -> ChartToVHDL (xform) ->
the concurrent signal assignments of the micro_stepper architecture parsed into boolean ASTs ->
TLC (spec/VhdlStep.tla) evaluates them for every legal configuration x situation x condition valuation
and compares with the specification's step."""
import fcntl, json, os, random, re, shutil, time
from vlib import *
import campaign
import chart as chartmod
from chart import cmp_, var, lit, TRUE
import families, directed


def for_vhdl(c):
    """strip a chart to the fragment: no history, no executable content, no data; every condition becomes
    the free input c<t> == 1.  Returns False if the chart is outside the fragment."""
    if any(n.kind == "history" for n in c.states):
        return False
    for n in c.states:
        n.onentry, n.onexit, n.data, n.autolog = [], [], [], False
        # ChartToC::prepare moves <initial> elements in front of their siblings before numbering the states
        n.children = [k for k in n.children if k.kind == "initial"] + [k for k in n.children if k.kind != "initial"]
    c._number()
    vars_ = []
    for t in c.trans:
        t.content = []
        if t.kind == "normal" and t.cond is not None and t.cond != TRUE:
            t.cond = cmp_("==", var("c%d" % t.idx), lit(1))
            vars_.append("c%d" % t.idx)
        else:
            t.cond = None
    c.vars = vars_
    c.binding = "early"
    return len(vars_) <= 4


def build_vhdl_campaign(tier, sd):
    rnd = random.Random(sd * 53 + 18)
    cp = campaign.Campaign("vhdl", tier)

    def add(c, tag):
        if not for_vhdl(c):
            return
        cp.add_chart(c)
        c.tags.append(tag)
    for c in directed.charts():
        add(c, "D:" + c.name)

    def add_E(n, m, frac, tl=False):
        for desc in families.enum_E(n, m, tlast_variants=tl):
            if frac < 1.0 and rnd.random() >= frac:
                continue
            add(families.build_E(desc), "E(%d,%d)" % (n, m))
    if tier == "quick":
        add_E(1, 1, 1.0)
        add_E(2, 1, 1.0)
        add_E(3, 1, 0.15)
        add_E(2, 2, 0.02, tl=True)
        nrand = 60
    else:
        add_E(1, 1, 1.0)
        add_E(2, 1, 1.0)
        add_E(3, 1, 1.0)
        add_E(2, 2, 0.3, tl=True)
        add_E(4, 1, 0.05)
        nrand = 1500
    for desc in families.enum_P():
        if tier == "quick" and rnd.random() >= 0.5:
            continue
        add(families.build_P(desc), "P")
    rc = families.RandomCharts(sd * 733 + 18)
    n0 = len(cp.charts)
    for _ in range(nrand * 6):
        if len(cp.charts) - n0 >= nrand:
            break
        add(rc.chart(), "R")
    return cp


# ---------------------------------------------------------------- VHDL text -> equations
TOK = re.compile(r"\s*(\(|\)|'[01]'|[A-Za-z_][A-Za-z0-9_]*)")
WANTED = re.compile(r"^(in_optimal_transition_set_\d+_sig|optimal_transition_set_combined_sig|spontaneous_active|in_exit_set_\d+_sig|"
                    r"in_default_completion_\d+_sig|in_complete_entry_set_up_\d+_sig|in_complete_entry_set_\d+_sig|in_entry_set_\d+_sig|state_next_\d+_sig|completed_sig)$")


class ParseError(Exception):
    pass


def parse_expr(text):
    toks = []
    pos = 0
    text = text.strip()
    while pos < len(text):
        m = TOK.match(text, pos)
        if not m:
            raise ParseError("token at %r" % text[pos:pos + 20])
        toks.append(m.group(1))
        pos = m.end()
    i = [0]

    def peek():
        return toks[i[0]] if i[0] < len(toks) else None

    def term():
        t = peek()
        if t is None:
            raise ParseError("unexpected end")
        i[0] += 1
        if t == "not":
            return {"k": "not", "a": [term()]}
        if t == "(":
            e = expr()
            if peek() != ")":
                raise ParseError("missing )")
            i[0] += 1
            return e
        if t in ("'0'", "'1'"):
            return {"k": "c", "v": t == "'1'"}
        if t in ("and", "or", ")"):
            raise ParseError("unexpected %s" % t)
        return {"k": "s", "n": t}

    def expr():
        first = term()
        op = None
        args = [first]
        while peek() in ("and", "or"):
            o = peek()
            if op is not None and o != op:
                raise ParseError("and/or mixed without parentheses")
            op = o
            i[0] += 1
            args.append(term())
        return first if op is None else {"k": op, "a": args}
    e = expr()
    if i[0] != len(toks):
        raise ParseError("trailing %r" % toks[i[0]:i[0] + 3])
    return e


def signals_of(e, out):
    if e["k"] == "s":
        out.add(e["n"])
    elif e["k"] != "c":
        for x in e["a"]:
            signals_of(x, out)


def extract(text, events):
    """events: list of token lists (the document's event names).  -> dict for VhdlStep"""
    a = text.find("architecture behavioral of micro_stepper")
    b = text.find("end behavioral", a)
    arch = text[a:b]
    # remove processes (sequential logic is not part of the equations)
    arch = re.sub(r"(?s)\n\s*\w+\s*:\s*process.*?end process;", "\n", arch)
    arch = re.sub(r"--[^\n]*", "", arch)
    arch = arch[arch.find("begin") + 5:]
    eqs, err = {}, ""
    for m in re.finditer(r"(?s)([A-Za-z_][A-Za-z0-9_]*)\s*<=\s*(.*?);", arch):
        name, rhs = m.group(1), m.group(2)
        if not WANTED.match(name):
            continue
        if name in eqs:
            err = "signal %s assigned twice" % name
        try:
            eqs[name] = parse_expr(rhs)
        except ParseError as ex:
            err = "%s: %s" % (name, ex)
    # dependency order
    deps = {}
    for n, e in eqs.items():
        s = set()
        signals_of(e, s)
        deps[n] = s
    order, state = [], {}
    cyclic = [False]

    def visit(n):
        if state.get(n) == 2:
            return
        if state.get(n) == 1:
            cyclic[0] = True
            return
        state[n] = 1
        for d in sorted(deps[n]):
            if d in eqs:
                visit(d)
        state[n] = 2
        order.append(n)
    for n in sorted(eqs):
        visit(n)
    inputs = sorted(set().union(*deps.values()) - set(eqs)) if deps else []
    # event signals: event_<alnum of the name>[_<hash char>]_sig
    evsigs = sorted(set(re.findall(r"signal (event_\w+_sig) : std_logic;", text)))
    evmap = []
    for ev in events:
        name = ".".join(ev)
        alnum = "".join(ch for ch in name if ch.isalnum() or ch == "_")
        if alnum == name:
            cands = [s for s in evsigs if s == "event_%s_sig" % alnum]
        else:
            cands = [s for s in evsigs if re.match(r"^event_%s_\d+_sig$" % re.escape(alnum), s)]
        if len(cands) == 1:
            evmap.append({"sig": cands[0], "name": ev})
        elif len(cands) > 1:
            err = err or "event signal for %s ambiguous: %s" % (name, cands)
    return {"cyclic": cyclic[0], "error": err, "eqs": [{"n": n, "e": eqs[n]} for n in order], "events": evmap, "inputs": inputs,
            "evsigs": evsigs}


def doc_events(c):
    """event names the document mentions: descriptor prefixes (tokens) of all transitions"""
    return [list(e) for e in c.events()]


def run_vhdl(cp, workdir):
    t0 = time.time()
    os.makedirs(workdir, exist_ok=True)
    charts_file = os.path.join(workdir, "charts.ndjson")
    campaign.write_charts(cp, charts_file)
    gen = os.path.join(workdir, "gen")
    os.makedirs(gen, exist_ok=True)
    nsh = NCPU
    cmds = []
    for i in range(nsh):
        bp = os.path.join(gen, "xf%02d.batch" % i)
        with open(bp, "wb") as f:
            for c in cp.charts:
                if c.cid % nsh == i:
                    y = c.render("lua").encode()
                    f.write(("DOC m%d vhdl %d\n" % (c.cid, len(y))).encode() + y + b"\n")
        cmds.append([os.path.join(BIN, "xform"), bp, gen])
    res = run_parallel(cmds)
    xfail = {}
    for rc, out in res:
        for line in out.splitlines():
            if line.startswith("FAIL "):
                xfail[int(line.split()[1][1:])] = line
    t1 = time.time()
    # shards of charts: each shard gets its own chart + equation files (line i <-> line i)
    shards = [[] for _ in range(nsh)]
    cost = [0] * nsh
    for c in sorted(cp.charts, key=lambda c: -len(c.states) * (2 ** len(c.vars))):
        k = cost.index(min(cost))
        shards[k].append(c)
        cost[k] += len(c.states) * (2 ** len(c.vars)) * (1 + len(c.events()))
    jobs = []
    nprog = 0
    for si, cs in enumerate(shards):
        if not cs:
            continue
        cf = os.path.join(workdir, "s%02d.charts.ndjson" % si)
        ef = os.path.join(workdir, "s%02d.eqs.ndjson" % si)
        with open(cf, "w") as fc, open(ef, "w") as fe:
            for c in cs:
                v = c.to_value()
                v["alphabet"] = []
                fc.write(chartmod.dumps(v) + "\n")
                p = os.path.join(gen, "m%d.vhdl" % c.cid)
                if c.cid in xfail or not os.path.exists(p):
                    q = {"cyclic": False, "error": "transform-failed", "eqs": [], "events": [], "inputs": [], "evsigs": []}
                else:
                    with open(p, errors="replace") as f:
                        q = extract(f.read(), doc_events(c))
                    nprog += 1
                q["chart"] = c.cid
                fe.write(chartmod.dumps(q) + "\n")
        cfgp = os.path.join(workdir, "VhdlStep.cfg")
        write_cfg(cfgp, ["SPECIFICATION Spec", 'CONSTANT Variants = {"static"}', "CHECK_DEADLOCK FALSE", "POSTCONDITION Done"])
        cmd = tlc_cmd("VhdlStep.tla", cfgp, os.path.join(workdir, "meta.s%02d" % si))
        cmd[cmd.index("-config") + 1] = cfgp
        jobs.append((si, cmd, {"CHARTS": cf, "EQS": ef}))
    outs = run_parallel([j[1] for j in jobs], env=[j[2] for j in jobs], timeout=6000)
    verdicts, failures, counts = [], [], []
    for j, (rc, out) in zip(jobs, outs):
        p = parse_tlc(out)
        if not p["ok"] or p["error"]:
            failures.append({"shard": j[0], "rc": rc, "tail": out[-1500:]})
        verdicts.extend(p["verdicts"])
        for line in out.splitlines():
            if line.startswith('"COUNT '):
                counts.append(json.loads(json.loads(line)[6:]))
        shutil.rmtree(os.path.join(workdir, "meta.s%02d" % j[0]), ignore_errors=True)
    # root cause of disagreements: the reference is Appendix D with the transpilers' conflict relation ("static"); charts
    # that disagree are judged again against uSCXML's own selection scheme (variant "uscxml": one pass in post-fix order,
    # which lets a state fall back to a later transition when its first enabled one is pre-empted)
    bad = sorted(set(v["chart"] for v in verdicts if v["why"] in ("transitions", "exit-set", "entry-set", "next")))
    if bad and not failures:
        byid = {c.cid: c for c in cp.charts}
        cf = os.path.join(workdir, "u.charts.ndjson")
        ef = os.path.join(workdir, "u.eqs.ndjson")
        eqs_of = {}
        for si in range(nsh):
            p_ = os.path.join(workdir, "s%02d.eqs.ndjson" % si)
            if os.path.exists(p_):
                with open(p_) as f:
                    for line in f:
                        q = json.loads(line)
                        eqs_of[q["chart"]] = line
        with open(cf, "w") as fc, open(ef, "w") as fe:
            for cid in bad:
                v = byid[cid].to_value()
                v["alphabet"] = []
                fc.write(chartmod.dumps(v) + "\n")
                fe.write(eqs_of[cid])
        cfgu = os.path.join(workdir, "VhdlStep.u.cfg")
        write_cfg(cfgu, ["SPECIFICATION Spec", 'CONSTANT Variants = {"uscxml", "A2raw"}', "CHECK_DEADLOCK FALSE", "POSTCONDITION Done"])
        cmd = tlc_cmd("VhdlStep.tla", cfgu, os.path.join(workdir, "meta.u"))
        cmd[cmd.index("-config") + 1] = cfgu
        (rc, out), = run_parallel([cmd], env={"CHARTS": cf, "EQS": ef}, timeout=6000)
        pu = parse_tlc(out)
        shutil.rmtree(os.path.join(workdir, "meta.u"), ignore_errors=True)
        if not pu["ok"] or pu["error"]:
            failures.append({"shard": "uscxml", "rc": rc, "tail": out[-1500:]})
        still = set(v["chart"] for v in pu["verdicts"])
        for v in verdicts:
            if v["chart"] in bad and v["chart"] not in still:
                v["class"] = "static"
    t2 = time.time()
    # keep the emitted text of charts with verdicts for the replay files
    keep = set(v["chart"] for v in verdicts)
    kd = os.path.join(workdir, "vhdl")
    os.makedirs(kd, exist_ok=True)
    for cid in sorted(keep)[:50]:
        p = os.path.join(gen, "m%d.vhdl" % cid)
        if os.path.exists(p):
            shutil.copy(p, kd)
    shutil.rmtree(gen, ignore_errors=True)
    result = {"charts": len(cp.charts), "programs": nprog, "transform_failed": {str(k): v for k, v in xfail.items()},
              "cases": sum(c["cases"] for c in counts), "configurations": sum(c["cfgs"] for c in counts),
              "charts_judged": len(counts), "verdicts": verdicts, "failures": failures,
              "t_transform": round(t1 - t0, 1), "t_judge": round(t2 - t1, 1)}
    if not failures:
        with open(os.path.join(workdir, "result.json"), "w") as f:
            json.dump(result, f)
    return result


def cached_vhdl(tier):
    ensure_build()
    h = file_hash([os.path.join(HOOKS, "lib", "libuscxml_transform.so.2.0.0"), os.path.join(HOOKS, "lib", "libuscxml.so.2.0.0"),
                   os.path.join(ROOT, "gen"), os.path.join(ROOT, "spec"), os.path.join(ROOT, "harness", "xform.cpp"),
                   os.path.join(ROOT, "lib", "vhdl.py"), os.path.join(ROOT, "lib", "campaign.py")])
    key = "vhdl-%s-%d-%s" % (tier, seed(), h)
    base = os.path.join(OUT, "cache")
    os.makedirs(base, exist_ok=True)
    workdir = os.path.join(base, key)
    lock = open(os.path.join(base, key + ".lock"), "w")
    fcntl.flock(lock, fcntl.LOCK_EX)
    try:
        rp = os.path.join(workdir, "result.json")
        if os.path.exists(rp):
            with open(rp) as f:
                r = json.load(f)
        else:
            for d in os.listdir(base):
                if d.startswith("vhdl-%s-" % tier) and d != key and not d.endswith(".lock"):
                    shutil.rmtree(os.path.join(base, d), ignore_errors=True)
            r = run_vhdl(build_vhdl_campaign(tier, seed()), workdir)
        r["workdir"] = workdir
        return r
    finally:
        fcntl.flock(lock, fcntl.LOCK_UN)
        lock.close()
