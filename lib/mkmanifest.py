"""writes /verif/MANIFEST.json from the table below (kept in one place so that it stays valid)"""
import json

CHECKS = {
 "C01": ("model_checking",
         "Every step() of the default (large) engine on every chart of the bounded-exhaustive families E(n,m), the directed and the seeded random charts, for all event words up to the bound, is compared by TLC with the step of an explicit TLA+ transcription of Appendix D (atoms: dequeue, exit, enter, take, log, raise, send; configuration; final data values), for the lua, promela and null datamodels; the specification itself is model-checked for legality/history/life-cycle invariants over the same families. Exhaustive within the stated bounds, sampled beyond.",
         "5 C01", "trace validation against TLA+ spec (Trace_Step) + TLC model checking (MC_Step)"),
 "C02": ("model_checking",
         "LegalConfiguration / RootEnteredOnce / HistorySound are invariants of the TLA+ specification (checked by TLC on every reachable state of MC_Step) and are evaluated by TLC on the configuration LOGGED after every step() of both engines for every case of the campaign, independently of the behavioural oracle.",
         "5 C02", "TLC invariant checking on spec states and on recorded configurations (Trace_Step monitor part)"),
 "C03": ("model_checking",
         "Both engines are run on every case; both traces are validated against the same functional specification, and Lockstep.tla compares the two recordings line by line (result codes, atoms, raw monitor callbacks, configurations, final data).",
         "5 C03", "TLC lock-step comparison of two recorded traces (Lockstep) + trace validation"),
 "C04": ("translation_validation",
         "Every chart of the families is transpiled by ChartToC (in-process), the emitted machine is compiled with the sizing macros the generator emits (thorough: also with ASan+UBSan) together with a scaffold providing all callbacks, run on every event word, and every uscxml_step() is compared by TLC with the TLA+ specification iterated to the next micro-step (dequeued/raised/sent events, log output incl. entry/exit order, configuration, final data); the uscxml_ctx sits between guard areas checked after every step.",
         "5 C04", "trace validation of emitted C against the TLA+ spec (Trace_Step, coarse step) + sanitizer side condition"),
 "C06": ("translation_validation",
         "Every chart of the families that the Promela back-end can express (promela datamodel, integer data, raise/send/assign/if/log, In predicate, history, parallel; no error-raising content) is transpiled by ChartToPromela (in-process), the event word is injected into the emitted model's external queue and the model is simulated by spin; the whole run (dequeued internal/external events, exited and entered states, <log> values incl. order, the configuration when the run ends idle, finished or not) is compared by TLC with the TLA+ specification iterated to quiescence. Runs that spin cuts off (step bound, or one of the model's bounded queues is full) are compared on the common prefix.",
         "5 C06", "trace validation of spin simulations of the emitted Promela model against the TLA+ spec (Trace_Step, StepUntilQuiescent)"),
 "C07": ("fault_enumeration",
         "For every base chart (directed + bounded-exhaustive E(1..2,1)) and every position of every executable block (onentry, onexit, transition, initial/history transition), one variant per fault kind (illegal location, illegal expression, unsupported send type, unreachable / invalid send target, missing attribute, division and modulo by zero) plus failing conditions, <if> conditions and <data> initialisers, for lua and promela, both engines; TLC validates every step against the specification's error semantics (error event at the right queue position, only the rest of that block skipped); the recording child's exit status is part of the trace.",
         "5 C07", "fault enumeration: recorded runs of fault-injected charts validated against the TLA+ spec (Trace_Step)"),
 "C08": ("model_checking",
         "EventQueue.tla (mutex/condition-variable FIFO, N producers, one consumer; exactly once, per-sender FIFO, conservation, no lost wake-up under fairness) is model-checked; real runs with 2-6 producer threads against a blocking or polling stepper are recorded through hooks under the queue's mutex and validated against the model's abstract state (Trace_Queue.tla); the sequential dequeue discipline is validated on every interpreter campaign trace.",
         "5 C08", "TLC model checking (EventQueue) + trace validation of recorded multi-threaded runs (Trace_Queue)"),
 "C09": ("model_checking",
         "DelayQueue.tla models timerCallback against cancelDelayed with both mutexes and libevent's blocking event_del(); TLC checks use-after-free, at-most-once, cancel-wins and deadlock freedom for the protocol the code implements and shows that the previous protocol violates them; the counterexample schedule is forced in the real code through the hooks (watchdog), and seeded runs with up to six delayed sends and cancels are validated against the timing contract (Trace_Delay.tla: not early within timer granularity, due order, once, cancel-before-due wins, nothing lost).",
         "5 C09", "TLC model checking (DelayQueue) + forced-schedule replay + trace validation of timed runs (Trace_Delay)"),
 "C10": ("model_checking",
         "All API words (step* ; up to 2-3 of {step, receive, cancel, reset} ; step*) over six charts are executed against fresh interpreters (instrumented components and the default ones) and every call is validated against ScxmlStep, in which receive/cancel/reset are enabled in every life-cycle state; Teardown.tla (timer thread vs stop()) is model-checked for termination under fairness in both variants, and its counterexample schedule is forced in the real code through the hooks, next to randomly delayed create/step/destroy cycles under a watchdog.",
         "5 C10", "trace validation of enumerated API words (Trace_Step) + TLC liveness checking (Teardown) + forced-schedule replay"),
 "C11": ("model_checking",
         "Invoke.tla (stop() vs the child's run loop and the parent-queue gate) is model-checked for done-at-most-once, done-only-after-own-completion, silence after cancel and termination of stop(); 384+ real runs of a parent with an inline invoked child (finishing at once / after three events / never; autoforward; finalize; seeded scripts) are recorded with the monitor copied to the invoked session and validated by Trace_Invoke.tla (start once per macrostep end with the state active, cancel once after exit, done.invoke at most once and only after the child's own completion, no child activity outside the invocation, child events in send order, nothing sent during cancellation reaches the parent, finalize before processing, autoforward/#_id routing).",
         "5 C11", "TLC model checking (Invoke) + trace validation of recorded parent/child runs (Trace_Invoke)"),
 "C12": ("exploration",
         "TLC enumerates all descriptor lists up to the bound with the verdict of the TLA+ relation NameMatch for every event name up to the bound; the table is replayed through uscxml::nameMatch and the matcher shipped in test-gen-c.cpp. Exhaustive in the bound, seeded random beyond.",
         "5 C12", "TLC-generated oracle table (MC_NameMatch) replayed through the implementation"),
 "C13": ("model_checking",
         "The raw InterpreterMonitor callback stream of every recorded step() of both engines (all campaign cases incl. error, cancel and top-level-final runs) is checked by TLC against a chart-independent specification of the callback protocol (bracket nesting, phase order exits<=transitions<=entries, stable notice once per macrostep) and cross-checked against the logger, the queue wrappers and getConfiguration().",
         "5 C13", "TLC trace validation of raw callback streams against the Monitor protocol specification (Trace_Monitor)"),
 "C19": ("exploration",
         "Every base chart (directed, bounded-exhaustive E samples, random) is validated unedited in every datamodel that can express it and after each applicable single edit (ten kinds: dangling target/initial, initial outside, history without/with two/with an evented default, non-orthogonal targets, duplicate id, missing id, <initial> with event); documents without fatal issue are run and transpiled to C, Promela and VHDL in forked children; TLC evaluates the TLA+ predicate WellFormed on the raw chart and checks completeness (valid => no fatal, no syntax-error warning), soundness (invalid but passed => harmless) and termination of the validator per document.",
         "5 C19", "TLC evaluation of WellFormed / Trace_Validate over validator verdicts of generated and edited documents"),
 "C20": ("exploration",
         "Every (document, back-end) is transpiled in six process environments (two separate processes, ASLR off, allocator perturbation, cold and warm cache files in another TMPDIR); TLC checks that the digest is a function of (document, back-end) (Determinism.tla). Interpreter traces of the same cases recorded in two environments are compared by Lockstep. Only non-determinism that one of the enumerated environments provokes can be seen.",
         "5 C20", "TLC functional-dependence check over observations from several process environments (Determinism) + Lockstep"),
 "C14": ("fault_enumeration",
         "Every macrostep boundary of every run is a snapshot point: the interpreter is serialized there and a fresh interpreter for the same document resumes from the text; TLC validates prefix . resume . continuation against the specification, in which Resume leaves every abstract variable unchanged (configuration, history, initialised data, data values, pending external events). State strings of other documents must be rejected (all ordered pairs of eight documents).",
         "5 C14", "fault enumeration over snapshot points: resumed runs validated against the TLA+ spec (Trace_Step with EnvResume)"),
 "C15": ("exploration",
         "TLC enumerates the bounded domain of Data values (strings over 13 characters incl. quote, backslash, control characters and a multi-byte character; numbers; arrays; maps with such keys; nesting) -- the oracle of the round trip is the identity, TLC contributes the exhaustive domain; every value goes through toJSON/fromJSON and Event->Data->Event. Robustness is a sanitizer side condition: all structural strings up to a length bound plus prefixes and byte mutations of seed texts are parsed by an ASan+UBSan build of Data.cpp+jsmn.c in forked children.",
         "5 C15", "TLC-enumerated domain replayed through the implementation; ASan/UBSan side condition for the parser"),
 "C16": ("exploration",
         "TLC enumerates values (empty / number-like / code-like strings, integers, reals, booleans, arrays, maps with non-numeric keys, nested) x ways in (assign, init, event payload); the specification of the trip is the identity; every vector goes through a live lua-datamodel interpreter and is read back with evalAsData; assignments to the five system variables must raise error.execution and leave them unchanged.",
         "5 C16", "TLC-enumerated domain (MC_LuaValue) replayed through the implementation"),
 "C17": ("exploration",
         "TLC enumerates expression ASTs up to depth 2 with the value the TLA+ evaluator PromelaExpr!Eval defines (C integer semantics) and renders each with minimal and full parentheses; every vector is evaluated by evalAsData/evalAsBool of a live promela-datamodel interpreter in forked children (a crash is an outcome).",
         "5 C17", "TLC-generated oracle table (MC_PromelaExpr) replayed through the implementation"),
}
NOT_YET = {
 "C04": "check not built yet in this round (generated C harness pending)",
 "C05": "check not built yet in this round",
 "C06": "check not built yet in this round",
 "C07": "check not built yet in this round",
 "C08": "check not built yet in this round",
 "C09": "check not built yet in this round",
 "C10": "check not built yet in this round",
 "C11": "check not built yet in this round",
 "C13": "check not built yet in this round",
 "C14": "check not built yet in this round",
 "C15": "check not built yet in this round",
 "C16": "check not built yet in this round",
 "C17": "check not built yet in this round",
 "C18": "check not built yet in this round",
 "C19": "check not built yet in this round",
 "C20": "check not built yet in this round",
}

def main():
    m = {"version": 1,
         "setup_cmd": "make -C /verif setup",
         "hooks": {"guard": "USCXML_VERIF",
                   "enable": "cmake -S /repo -B /verif/build/hooks -DCMAKE_CXX_FLAGS=-DUSCXML_VERIF (make -C /verif build)",
                   "baseline_off_cmd": "/verif/lib/baseline.sh",
                   "source_commits": ["ffb07418"], "add_only": True},
         "engines": [{"name": "tlc", "path": "/opt/veriftools/tla/tla2tools.jar", "serves_properties": sorted(CHECKS),
                      "kind_free_text": "TLC model checker: judges recorded traces against the TLA+ specification and model-checks the specification"}],
         "checks": [], "not_applicable": [],
         "notes": "All checks: bin/check <id> quick|thorough. Exit 2 = the check itself failed (build/model failure), never reported as a verdict."}
    for pid in sorted(CHECKS):
        cat, text, ref, tech = CHECKS[pid]
        m["checks"].append({"property_id": pid, "quick_cmd": "bin/check %s quick" % pid,
                            "thorough_cmd": "bin/check %s thorough" % pid,
                            "evidence_file": "/verif/evidence/%s.json" % pid,
                            "replay_cmd_template": "bin/check replay {path}",
                            "engine": "tlc",
                            "level_claimed": {"category": cat, "text": text, "design_ref": "DESIGN.md section " + ref},
                            "level_note": "Trusted: TLC and the CommunityModules JSON reader; the Python orchestration (renders abstract charts to SCXML, shards, collects verdicts); the harness's projection of monitor/log/queue callbacks to atoms. The oracle is the TLA+ transcription of Appendix D, itself checked against the legality invariants and the W3C IRP corpus.",
                            "technique": tech})
    for pid in sorted(NOT_YET):
        if pid not in CHECKS:
            m["not_applicable"].append({"property_id": pid, "reason": NOT_YET[pid]})
    with open("/verif/MANIFEST.json", "w") as f:
        json.dump(m, f, indent=1)

if __name__ == "__main__":
    main()
