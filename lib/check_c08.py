"""C08: external events are processed exactly once, in order, at macrostep boundaries.
Concurrent half: EventQueue.tla (mutex + condition variable FIFO, N producers, one consumer) is
model-checked (exactly once, per-sender FIFO, conservation, no lost wake-up under fairness), and
real multi-threaded runs (harness/mt_queue, hooks under the queue's mutex) are validated against
its abstract state by Trace_Queue.tla.  Sequential half: the dequeue order of every interpreter
campaign trace (internal before external, FIFO) is part of the step-by-step validation of C01;
mismatches whose first difference is a dequeue are reported here."""
import collections, json, os, time
from vlib import *
import campaign
from checks_interp import classified, write_replay


def run(pid, tier):
    t0 = time.time()
    ensure_build()
    wd = os.path.join(OUT, "c08")
    os.makedirs(wd, exist_ok=True)
    rd = os.path.join(OUT, "replay")
    os.makedirs(rd, exist_ok=True)
    for fn in os.listdir(rd):
        if fn.startswith("C08-"):
            os.remove(os.path.join(rd, fn))
    # 1. model checking
    configs = [({1, 2}, 2), ({1, 2, 3}, 2)] if tier == "quick" else [({1, 2}, 2), ({1, 2, 3}, 2), ({1, 2, 3}, 3)]
    mc = []
    for prods, per in configs:
        cfgp = os.path.join(wd, "EQ_%d_%d.cfg" % (len(prods), per))
        write_cfg(cfgp, ["SPECIFICATION FairSpec", "CONSTANTS Producers = {%s}" % ",".join(str(p) for p in sorted(prods)),
                         "          PerProducer = %d" % per, "INVARIANT MutexOK", "INVARIANT AtMostOnce", "INVARIANT PerSenderFIFO",
                         "INVARIANT Conservation", "PROPERTY AllDelivered", "CHECK_DEADLOCK FALSE"])
        cmd = tlc_cmd("EventQueue.tla", cfgp, os.path.join(wd, "meta"), workers=8, xmx="6g")
        cmd[cmd.index("-config") + 1] = cfgp
        (rc, out), = run_parallel([cmd], timeout=2400)
        p = parse_tlc(out)
        if not p["ok"]:
            print(out[-3000:])
            print("MODEL FAILURE or property violated in EventQueue.tla (%d producers x %d)" % (len(prods), per))
            sys.exit(2)
        mc.append({"producers": len(prods), "per": per, "generated": p["states"], "distinct": p["distinct"]})
    # 2. real runs
    nruns = 12 if tier == "quick" else 120          # x 16 configurations
    jobs = []
    k = 0
    for prods in (2, 3, 4, 6):
        for per in (2, 5):
            for mode in ("block", "poll"):
                k += 1
                tr = os.path.join(wd, "mtq%02d.ndjson" % k)
                jobs.append((tr, [os.path.join(BIN, "mt_queue"), tr, str(nruns), str(prods), str(per), str(seed() * 100 + k), mode]))
    # bursts against a blocking stepper without artificial delays: many enqueues find the queue non-empty while the
    # stepper is about to block (the window of a lost wake-up)
    for prods, per in ((4, 800), (2, 1500), (1, 2500)):
        k += 1
        tr = os.path.join(wd, "mtq%02d.ndjson" % k)
        jobs.append((tr, [os.path.join(BIN, "mt_queue"), tr, str(4 if tier == "quick" else 30), str(prods), str(per), str(seed() * 100 + k), "burst"]))
    res = run_parallel([j[1] for j in jobs], timeout=1800)
    for (rc, out), j in zip(res, jobs):
        if rc != 0:
            print(out[-1500:])
            print("HARNESS FAILURE: mt_queue")
            sys.exit(2)
    outs = run_parallel([tlc_cmd("Trace_Queue.tla", "Trace_Queue.cfg", os.path.join(wd, "meta%02d" % i)) for i in range(len(jobs))],
                        env=[{"TRACE": j[0]} for j in jobs], timeout=1800)
    verdicts = []
    tstates = 0
    events = 0
    for (rc, out), j in zip(outs, jobs):
        p = parse_tlc(out)
        if not p["ok"] or p["error"]:
            print(out[-2000:])
            print("MODEL FAILURE: Trace_Queue")
            sys.exit(2)
        tstates += p["distinct"]
        verdicts += p["verdicts"]
        with open(j[0]) as f:
            events += sum(1 for line in f if '"k":"ev"' in line)
    # 3. sequential half from the interpreter campaign
    result = campaign.cached_campaign(tier)
    seqv = []
    for eng in result["engines"]:
        for v in classified(result, eng)["un"]:
            if v["why"] == "atoms":
                i = v["extra"][0] - 1
                a = (v["expected"][i]["a"] if i < len(v["expected"]) else "") + (v["got"][i]["a"] if i < len(v["got"]) else "")
                if "deq" in a:
                    seqv.append(dict(v, property="C08"))
    paths = []
    if verdicts:
        rp = os.path.join(rd, "C08-mtqueue.json")
        with open(rp, "w") as f:
            json.dump({"property": "C08", "kind": "mt_queue", "verdicts": verdicts[:50]}, f, indent=1)
        paths.append(rp)
    paths += [write_replay(pid, result, v) for v in seqv[:5]]
    cov = {"states": sum(m["distinct"] for m in mc) + tstates, "transitions": sum(m["generated"] for m in mc) + tstates,
           "traces_validated_against_impl": nruns * len(jobs),
           "samples": [{"config": "producers=%s per=%s mode=%s" % (j[1][3], j[1][4], j[1][6]), "runs": nruns} for j in jobs[:4]],
           "model_checking": mc, "recorded_events": events,
           "sequential_half": {"campaign_cases": result["cases"], "dequeue_order_mismatches": len(seqv)},
           "properties": ["MutexOK", "AtMostOnce", "PerSenderFIFO", "Conservation", "AllDelivered (liveness, strong fairness on lock acquisition)"]}
    write_evidence(pid, tier, "model_checking", cov, time.time() - t0, len(verdicts) + len(seqv),
                   ["the OS schedules between hook points; seeded random delays at the hooks diversify interleavings",
                    "data-race freedom (TSan) is not part of this check"])
    finish(pid, paths, [])
