#!/usr/bin/env python3
"""lib/selftest.py [revert|seeded|all] [filter]

Shows that the binding bites: every change is applied to a SCRATCH worktree of /repo (never to /repo itself),
the registered quick check of the property is run against that worktree (VERIF_SANDBOX, see vlib.py: its own
build, caches and evidence), and the outcome is recorded in /verif/seeded/selftest.json and /verif/seeded/README.md.

  revert   for every "fixed:" entry of known_findings.json the fix commit is reverse-applied: the defect is back,
           the tree compiles, the repository's tests still pass (they did before the fix) -- the named check
           must print VIOLATION and exit 1
  seeded   every /verif/seeded/<id>/patch.diff (changes written by sub-agents that saw only the property text)
"""
import json, os, re, shutil, subprocess, sys, time

ROOT = "/verif"
SB = "/tmp/vst"
WT = os.path.join(SB, "repo")


def sh(cmd, **kw):
    return subprocess.run(cmd, shell=True, stdout=subprocess.PIPE, stderr=subprocess.STDOUT, text=True, **kw)


def setup():
    if not os.path.exists(WT):
        os.makedirs(SB, exist_ok=True)
        r = sh("git -C /repo worktree prune; git -C /repo worktree add --detach %s HEAD" % WT)
        if r.returncode:
            print(r.stdout)
            sys.exit(2)
    else:
        head = sh("git -C /repo rev-parse HEAD").stdout.strip()
        r = sh("git -C %s checkout -- . && git -C %s clean -fdq && git -C %s checkout -q --detach %s" % (WT, WT, WT, head))
        if r.returncode or sh("git -C %s rev-parse HEAD" % WT).stdout.strip() != head:
            print("cannot bring the scratch worktree to /repo's HEAD:", r.stdout[-300:])
            sys.exit(2)


def teardown():
    sh("git -C /repo worktree remove --force %s" % WT)
    shutil.rmtree(SB, ignore_errors=True)
    sh("git -C /repo worktree prune")


def run_check(pid, tier="quick", timeout=3000):
    t0 = time.time()
    env = dict(os.environ, VERIF_SANDBOX=SB)
    r = subprocess.run(["timeout", str(timeout), os.path.join(ROOT, "bin", "check"), pid, tier], stdout=subprocess.PIPE,
                       stderr=subprocess.STDOUT, text=True, env=env, cwd=ROOT)
    viol = [l for l in r.stdout.splitlines() if l.startswith("VIOLATION")]
    return {"rc": r.returncode, "violations": len(viol), "first": viol[0] if viol else "", "wall_s": round(time.time() - t0),
            "tail": r.stdout[-400:] if r.returncode not in (0, 1) else ""}


def apply_patch(text, reverse=False):
    p = os.path.join(SB, "p.diff")
    with open(p, "w") as f:
        f.write(text)
    r = sh("git -C %s apply %s --whitespace=nowarn %s" % (WT, "-R" if reverse else "", p))
    return r.returncode == 0, r.stdout[-300:]


def clean():
    sh("git -C %s checkout -- . && git -C %s clean -fdq" % (WT, WT))


def load_results():
    p = os.path.join(ROOT, "seeded", "selftest.json")
    if os.path.exists(p):
        with open(p) as f:
            return json.load(f)
    return {"revert": {}, "seeded": {}}


def save_results(res):
    os.makedirs(os.path.join(ROOT, "seeded"), exist_ok=True)
    with open(os.path.join(ROOT, "seeded", "selftest.json"), "w") as f:
        json.dump(res, f, indent=1, sort_keys=True)
    lines = ["# Seeded changes and what catches them", "",
             "Written by `lib/selftest.py`; every change is applied to a scratch worktree, never to /repo.", "",
             "## Reverted fixes (the defect the fix repaired is back; the repository's tests pass as they did before the fix)", "",
             "| fix commit | property | defect | check | outcome |", "|---|---|---|---|---|"]
    for h, r in sorted(res["revert"].items(), key=lambda kv: (kv[1]["property"], kv[0])):
        lines.append("| %s | %s | %s | `bin/check %s quick` | %s |" % (h, r["property"], r["what"][:110].replace("|", "/"), r["property"], r["outcome"]))
    lines += ["", "## Changes written by sub-agents from the property text alone", "",
              "| id | property | change | checks run | outcome |", "|---|---|---|---|---|"]
    for sid, r in sorted(res["seeded"].items()):
        lines.append("| %s | %s | %s | %s | %s |" % (sid, r["property"], r["what"][:140].replace("|", "/"), ", ".join(sorted(r["checks"])), r["outcome"]))
    with open(os.path.join(ROOT, "seeded", "README.md"), "w") as f:
        f.write("\n".join(lines) + "\n")


def do_revert(flt):
    with open(os.path.join(ROOT, "known_findings.json")) as f:
        fixed = json.load(f)["fixed"]
    res = load_results()
    # cheap checks first: the four properties decided on the shared interpreter campaign cost ten minutes per change
    heavy = {"C01": 3, "C02": 3, "C03": 3, "C13": 3, "C07": 2, "C14": 2, "C04": 1, "C06": 1}
    fixed = sorted(fixed, key=lambda l: heavy.get(re.match(r"fixed: property=(C\d+)", l).group(1), 0))
    for line in fixed:
        m = re.match(r"fixed: property=(C\d+) ([0-9a-f]+) (.*)", line)
        pid, h, what = m.group(1), m.group(2), m.group(3)
        if flt and flt not in (pid, h):
            continue
        if h in res["revert"] and res["revert"][h]["outcome"].startswith("caught") and not flt:
            continue
        clean()
        diff = sh("git -C /repo show --format= %s" % h).stdout
        ok, msg = apply_patch(diff, reverse=True)
        rec = {"property": pid, "what": what}
        if not ok:
            rec["outcome"] = "not applicable: later commits rewrote the same lines (%s)" % msg.strip().splitlines()[-1][:80] if msg.strip() else "not applicable"
        else:
            r = run_check(pid)
            rec["check"] = r
            if r["rc"] == 1 and r["violations"] > 0:
                rec["outcome"] = "caught (%d VIOLATION lines, %d s)" % (r["violations"], r["wall_s"])
            elif r["rc"] == 0:
                rec["outcome"] = "MISSED (check passed)"
            else:
                rec["outcome"] = "check broke (rc=%d) %s" % (r["rc"], r["tail"][-120:].replace("\n", " "))
        print(h, pid, rec["outcome"], flush=True)
        res["revert"][h] = rec
        save_results(res)
    clean()


def do_seeded(flt):
    res = load_results()
    sd = os.path.join(ROOT, "seeded")
    for sid in sorted(os.listdir(sd)):
        d = os.path.join(sd, sid)
        if not os.path.isdir(d) or not os.path.exists(os.path.join(d, "patch.diff")):
            continue
        if flt and flt != sid:
            continue
        with open(os.path.join(d, "meta.json")) as f:
            meta = json.load(f)
        clean()
        with open(os.path.join(d, "patch.diff")) as f:
            ok, msg = apply_patch(f.read())
        rec = {"property": meta["property"], "what": meta.get("what", ""), "checks": {}}
        if not ok:
            rec["outcome"] = "patch does not apply to HEAD: " + msg[-100:]
        else:
            caught = []
            for pid in meta.get("checks", [meta["property"]]):
                r = run_check(pid)
                rec["checks"][pid] = r
                if r["rc"] == 1 and r["violations"] > 0:
                    caught.append(pid)
            rec["outcome"] = ("caught by " + ", ".join(caught)) if caught else "MISSED"
        print(sid, rec["outcome"], flush=True)
        res["seeded"][sid] = rec
        save_results(res)
    clean()


if __name__ == "__main__":
    what = sys.argv[1] if len(sys.argv) > 1 else "all"
    flt = sys.argv[2] if len(sys.argv) > 2 else ""
    setup()
    try:
        if what in ("revert", "all"):
            do_revert(flt)
        if what in ("seeded", "all"):
            do_seeded(flt)
    finally:
        if os.environ.get("VERIF_KEEP_SANDBOX") != "1":
            teardown()
