"""bin/check replay <file>: re-run ONE recorded case against the current tree, strictly
(plain trace validation: a mismatch disables the action and TLC stops there)."""
import json, os, sys, shutil
from vlib import *
import chart as chartmod


def main(path):
    with open(path) as f:
        rp = json.load(f)
    ensure_build()
    kind = rp.get("kind")
    wd = os.path.join(OUT, "replay", "work")
    shutil.rmtree(wd, ignore_errors=True)
    os.makedirs(wd)
    if kind == "interp":
        return replay_interp(rp, wd)
    if kind == "namematch":
        vf = os.path.join(wd, "v.tsv")
        with open(vf, "w") as f:
            for v in rp["vectors"]:
                f.write("%s\t%s\t%d\n" % (v["descriptors"], v["name"], v["expected"]))
        r = sh([os.path.join(BIN, "fn_replay"), "namematch", vf], stdout=subprocess.PIPE, text=True)
        print(r.stdout[-3000:])
        return 1 if "DIFF" in r.stdout else 0
    if kind in ("genc", "pml", "vhdl"):
        return replay_transpiled(rp, wd, kind)
    if kind == "tables":
        import rebuild, campaign, tables, findings
        cp = campaign.Campaign("tables", "replay")
        cp.add_chart(rebuild.chart_from_value(rp["chart"]))
        r = tables.run_tables(cp, wd)
        if r["failures"]:
            print(r["failures"][0]["tail"][-2000:])
            return 2
        vs = [v for v in r["verdicts"] if v["why"] != "conflict-by-source-relation"]
        for v in vs[:8]:
            print("REJECTED:", json.dumps(v)[:1000])
        if not vs:
            print("ACCEPTED: all tables of this document are the specified ones on the current tree")
        return 1 if vs else 0
    print("cannot replay kind", kind)
    return 2


def replay_transpiled(rp, wd, kind):
    """one chart (and, for the executable back-ends, one event word) through the same pipeline as the campaign"""
    import rebuild, campaign
    cp = campaign.Campaign(kind, "replay")
    c = rebuild.chart_from_value(rp["chart"])
    cid = cp.add_chart(c)
    if kind == "vhdl":
        import vhdl
        r = vhdl.run_vhdl(cp, wd)
    else:
        case = rp["case"]
        words = [[".".join(w) for w in case["word"]]]
        cp.add_cases(cid, [case.get("dm", "lua")], words, modes=(case.get("mode", "drip"),))
        if kind == "pml":
            import pml
            r = pml.run_pml(cp, wd)
        else:
            import genc
            r = genc.run_genc(cp, wd)
    if r["failures"]:
        print(r["failures"][0]["tail"][-2000:])
        return 2
    vs = [v for v in r["verdicts"] if "after-verdict" not in (v.get("extra") or [])]
    if kind != "vhdl" and vs:
        # the campaign accepts the documented ambiguities of the Recommendation
        un, amb, sta = campaign.classify_c01(dict(r, workdir=wd), kind, prop=rp["property"])
        others = [v for v in vs if v.get("why") not in ("atoms", "cfg", "data")]
        vs = un + sta + others
    if not vs and not r.get("transform_failed"):
        print("ACCEPTED: the recorded case is a behaviour of the specification on the current tree")
        return 0
    for v in vs[:5]:
        print("REJECTED:", json.dumps(v)[:1500])
    for k, v in list(r.get("transform_failed", {}).items())[:2]:
        print("REJECTED: transform failed", v)
    return 1


def replay_interp(rp, wd):
    """the chart value is re-rendered by the current generator is NOT needed: the replay file carries
    the abstract chart; the SCXML text is re-rendered from it through gen/ (construct, never parse)"""
    import rebuild
    case = rp["case"]
    chart = rebuild.chart_from_value(rp["chart"])
    x = chart.render(case["dm"]).encode()
    eng = case["exec"]
    words = [".".join(w) for w in case["word"]]
    b = os.path.join(wd, "case.batch")
    hdr = dict(case, chart=1)
    hdr.setdefault("settle", 0)
    with open(b, "wb") as f:
        f.write(("CASE %d %s %s %d %d %d\n" % (case["case"], eng, case["mode"], len(words), len(rp["chart"]["vars"]), len(x))).encode())
        f.write(("H " + chartmod.dumps(hdr) + "\n").encode())
        for w in words:
            f.write(("W " + w + "\n").encode())
        for v in rp["chart"]["vars"]:
            f.write(("V " + v + "\n").encode())
        f.write(x + b"\n")
    tr = os.path.join(wd, "case.ndjson")
    sh([os.path.join(BIN, "interp_trace"), b, tr, "10"], env=dict(os.environ, VERIF_MAXSTEPS="60"))
    cf = os.path.join(wd, "charts.ndjson")
    with open(cf, "w") as f:
        f.write(chartmod.dumps(rp["chart"]) + "\n")
    variants = rp.get("variants", [])
    cfgp = os.path.join(wd, "T.cfg")
    write_cfg(cfgp, ["SPECIFICATION TraceSpec", "CONSTANT Variants = {%s}" % ",".join('"%s"' % v for v in variants),
                     "CHECK_DEADLOCK FALSE", "POSTCONDITION Consumed"])
    cmd = tlc_cmd("Trace_Step.tla", cfgp, os.path.join(wd, "meta"))
    (rc, out), = run_parallel([cmd], env={"CHARTS": cf, "TRACE": tr, "STRICT": "1"})
    p = parse_tlc(out)
    print(x.decode())
    with open(tr) as f:
        n = sum(1 for _ in f)
    if p["ok"]:
        print("ACCEPTED: all %d trace lines are a behaviour of the specification" % n)
        return 0
    mm = re.search(r"(\d+) states generated", out)
    got = int(mm.group(1)) - 1 if mm else -1
    print("REJECTED: the specification cannot follow trace line %d of %d" % (got + 1, n))
    with open(tr) as f:
        for i, line in enumerate(f):
            if i == got:
                print("  next trace line:", line.strip()[:1500])
    if rp.get("verdict"):
        print("  recorded verdict: expected", json.dumps(rp["verdict"].get("expected"))[:1500])
    return 1
