"""C04: the generated ANSI-C machine behaves like the interpreted chart (i.e. like Appendix D,
which is what C01 demands of the interpreter), and its step function stays inside its arrays.
Pipeline: gen/ charts -> ChartToC (xform) -> gcc + harness/genc_scaffold.c -> traces -> TLC."""
import collections, json, os, time
from vlib import *
import campaign, genc, findings
from checks_interp import write_replay


def run(pid, tier):
    t0 = time.time()
    rd = os.path.join(OUT, "replay")
    os.makedirs(rd, exist_ok=True)
    for fn in os.listdir(rd):
        if fn.startswith(pid + "-"):
            os.remove(os.path.join(rd, fn))
    results = [genc.cached_genc(tier, sanitize=False)]
    if tier != "quick":
        results.append(genc.cached_genc(tier, sanitize=True))
    known = [k for k in load_known() if k["property"] == pid]
    viol, hits = [], collections.OrderedDict()
    cov = {"programs": 0, "disagreements_checked": 0, "samples": []}
    for r in results:
        if r["failures"]:
            print(json.dumps(r["failures"][0])[-3000:])
            print("MODEL/HARNESS FAILURE: generated-C trace validation")
            sys.exit(2)
        with open(os.path.join(r["workdir"], "charts.ndjson")) as f:
            charts = [json.loads(l) for l in f]
        p = os.path.join(r["workdir"], "class.genc.json")
        if os.path.exists(p):
            d = json.load(open(p))
        else:
            un, amb, sta = campaign.classify_c01(r, "genc", prop="C04")
            d = {"un": un, "amb": amb, "sta": sta}
            json.dump(d, open(p, "w"))
        # atoms / cfg / data mismatches that no variant explains; exits (crash, sanitizer, transform/compile failure)
        others = [v for v in r["verdicts"] if v["property"] == "C04" and v["why"] not in ("atoms", "cfg", "data")]
        for v, cls in [(v, "unexplained") for v in d["un"]] + [(v, "static") for v in d["sta"]] + [(v, "exit") for v in others]:
            k = findings.match(known, v, charts[v["chart"] - 1], {"class": cls})
            if k:
                hits.setdefault(k["id"], [k, 0])[1] += 1
            else:
                viol.append((r, v))
        cov["programs"] += r["programs"]
        cov["disagreements_checked"] += r["cases"]
        cov.setdefault("runs", []).append({k: r[k] for k in ("cases", "charts", "programs", "sanitize", "trace_lines", "tlc_states",
                                                              "t_transform", "t_compile", "t_run", "t_judge", "families")})
        cov["transform_or_compile_failures"] = len(r["transform_failed"]) + len(r["compile_failed"])
        if not cov["samples"]:
            with open(os.path.join(r["workdir"], "s00.genc.ndjson")) as f:
                cov["samples"] = [json.loads(next(f)) for _ in range(3)]
    paths = [write_replay(pid, r, v) for r, v in viol[:10]]
    cov["unexplained_total"] = len(viol)
    cov["explanation"] = "programs = emitted machines compiled and run; disagreements_checked = (machine, event word, delivery mode) cases whose every uscxml_step() was compared by TLC with the specification"
    write_evidence(pid, tier, "translation_validation", cov, time.time() - t0, len(viol),
                   ["the scaffold's callbacks (queues, descriptor matching, expression functions compiled from the generator's ASTs) are trusted",
                    "uscxml_step() is compared with the specification iterated until a micro-step was taken (StepUntilEffective)",
                    "sanitizer runs (ASan+UBSan) only in the thorough tier"])
    finish(pid, paths, ["%s (%d cases in this run)" % (h[0]["what"], h[1]) for h in hits.values()])
