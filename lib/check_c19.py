"""C19: validation verdicts are sound and do not reject valid charts.
Every chart of a base family is validated as it is and after each single invalidating edit
(dangling target / initial, initial outside, history without / with two / with an evented default,
non-orthogonal targets, duplicate id, missing id (legal), <initial> with event), for the lua, promela
and null datamodels with real expressions; documents without fatal issue are also run (50 steps) and
transpiled to C, Promela and VHDL.  TLC judges every document against WellFormed (Trace_Validate.tla)."""
import collections, json, os, random, time
from vlib import *
import chart as chartmod
import directed, families, edits


def documents(tier, sd):
    rnd = random.Random(sd * 5 + 2)
    thunks = [(f.__name__, f) for f in directed.ALL if '"fault"' not in json.dumps(f().to_value())]
    for (n, m, frac) in ((2, 1, 0.4 if tier == "quick" else 1.0), (3, 1, 0.03 if tier == "quick" else 0.3)):
        for desc in families.enum_E(n, m):
            if rnd.random() < frac:
                thunks.append(("E(%d,%d)" % (n, m), (lambda d=desc: families.build_E(d))))
    rc = families.RandomCharts(sd * 91 + 4)
    for i in range(40 if tier == "quick" else 400):
        c = rc.chart()
        if '"fault"' in json.dumps(c.to_value()):
            continue      # deliberately failing elements (unknown send type, ...) are C07's subject, not valid documents
        thunks.append(("R", (lambda c=c: c)))
    docs = []
    for name, th in thunks:
        base = th()
        labels = ["unedited"] + [l for l, _ in edits.candidates(base)]
        for label in labels:
            c = th()
            if name == "R" and label != "unedited":
                continue          # random charts are shared objects: only validated as they are
            if label != "unedited":
                fn = dict(edits.candidates(c))[label]
                if not fn(c):
                    continue
                c._number()
            c.tags = ["V:" + name, "edit:" + label]
            dms = ["lua", "promela"] if c.needs_dm() else ["lua", "promela", "null"]
            for dm in (dms if label == "unedited" else dms[:1]):
                docs.append((c, dm))
    return docs


def run(pid, tier):
    t0 = time.time()
    ensure_build()
    wd = os.path.join(OUT, "c19")
    os.makedirs(wd, exist_ok=True)
    rd = os.path.join(OUT, "replay")
    os.makedirs(rd, exist_ok=True)
    for fn in os.listdir(rd):
        if fn.startswith("C19-"):
            os.remove(os.path.join(rd, fn))
    docs = documents(tier, seed())
    nsh = NCPU
    shards = [docs[i::nsh] for i in range(nsh)]
    cmds = []
    for si, sh_docs in enumerate(shards):
        with open(os.path.join(wd, "b%02d.batch" % si), "wb") as f, open(os.path.join(wd, "raw%02d.ndjson" % si), "w") as rf:
            for k, (c, dm) in enumerate(sh_docs):
                try:
                    y = c.render(dm).encode()
                except Exception as e:     # an edit the renderer cannot express
                    y = None
                if y is None:
                    continue
                f.write(("DOC d%d_%d %d\n" % (si, k, len(y))).encode() + y + b"\n")
                rv = c.to_raw_value()
                rv["tags"] = c.tags + ["dm:" + dm]
                rf.write(chartmod.dumps(rv) + "\n")
        cmds.append([os.path.join(BIN, "validate_run"), os.path.join(wd, "b%02d.batch" % si), os.path.join(wd, "v%02d.ndjson" % si)])
    res = run_parallel(cmds, timeout=3000)
    for (rc, out), cmd in zip(res, cmds):
        if rc != 0:
            print(out[-1000:])
            print("HARNESS FAILURE: validate_run")
            sys.exit(2)
    outs = run_parallel([tlc_cmd("Trace_Validate.tla", "Trace_Validate.cfg", os.path.join(wd, "meta%02d" % i)) for i in range(nsh)],
                        env=[{"TRACE": os.path.join(wd, "v%02d.ndjson" % i), "RAW": os.path.join(wd, "raw%02d.ndjson" % i)} for i in range(nsh)], timeout=1800)
    verdicts = []
    st = 0
    ndocs = 0
    stats = collections.Counter()
    for i, (rc, out) in enumerate(outs):
        p = parse_tlc(out)
        if not p["ok"] or p["error"]:
            print(out[-2500:])
            print("MODEL FAILURE: Trace_Validate")
            sys.exit(2)
        st += p["distinct"]
        verdicts += p["verdicts"]
        with open(os.path.join(wd, "v%02d.ndjson" % i)) as f:
            for line in f:
                d = json.loads(line)
                ndocs += 1
                stats["fatal" if d["fatal"] > 0 else ("crash" if d["fatal"] < 0 else "nofatal")] += 1
    known = [k for k in load_known() if k["property"] == pid]
    hits = collections.OrderedDict()
    viol = []
    for v in verdicts:
        tags = v["extra"][1]
        edit = next((t[5:] for t in tags if t.startswith("edit:")), "?")
        dm = next((t[3:] for t in tags if t.startswith("dm:")), "?")
        sig = "%s|%s|%s" % (v["why"], edit if v["why"].startswith("valid-document") else "*", dm if "syntax" in v["why"] else "*")
        k = next((k for k in known if k.get("signature") == sig), None)
        if k:
            hits.setdefault(k["id"], [k, 0])[1] += 1
        else:
            v["signature"] = sig
            viol.append(v)
    paths = []
    if viol:
        rp = os.path.join(rd, "C19-validate.json")
        with open(rp, "w") as f:
            json.dump({"property": "C19", "kind": "validate", "verdicts": viol[:100]}, f, indent=1)
        paths.append(rp)
    cov = {"evaluations": ndocs, "distinct_nontrivial": ndocs,
           "rule": "every base chart (directed, E(2,1), E(3,1) sample, random) unedited in each datamodel that can express it, and once per applicable single edit "
                   "(10 kinds, 9 invalidating, 1 legal: missing id); each document is validated, and -- without fatal issue -- run for 50 steps and transpiled to "
                   "C, Promela and VHDL in forked children; TLC evaluates WellFormed on the raw chart and the three obligations of Trace_Validate per document",
           "samples": [{"tags": c.tags, "dm": dm} for c, dm in docs[:: max(1, len(docs) // 5)][:5]],
           "verdict_of_validator": dict(stats), "tlc_states": st, "disagreements": len(verdicts),
           "disagreement_kinds": dict(collections.Counter(v["why"] for v in verdicts))}
    write_evidence(pid, tier, "exploration", cov, time.time() - t0, len(viol),
                   ["WellFormed transcribes the structural constraints only; required attributes of executable content are always present in generated documents",
                    "a dirty run of a WellFormed document is attributed to C01/C02/C07 and not reported here"])
    finish(pid, paths, ["%s (%d documents)" % (h[0]["what"], h[1]) for h in hits.values()])
