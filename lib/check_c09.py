"""C09: delayed events fire once, not early, in due order, unless cancelled.
DelayQueue.tla models timerCallback vs cancelDelayed (two mutexes, libevent's blocking event_del);
TLC checks use-after-free, at-most-once, cancel-wins and deadlock freedom for the protocol the code
implements (Repaired = TRUE) and shows that the old protocol violates them (Repaired = FALSE: the
model discriminates).  The counterexample schedule (timer thread in the window between unlocking
and delivery while a cancel is inside cancelDelayed) is forced in the real code through the hooks;
seeded random runs with up to 6 delayed sends and cancels are validated against the timing contract
(Trace_Delay.tla: not early, due order, at most once, cancel before due wins, nothing lost)."""
import collections, json, os, time
from vlib import *


def run(pid, tier):
    t0 = time.time()
    ensure_build()
    wd = os.path.join(OUT, "c09")
    os.makedirs(wd, exist_ok=True)
    rd = os.path.join(OUT, "replay")
    os.makedirs(rd, exist_ok=True)
    for fn in os.listdir(rd):
        if fn.startswith("C09-"):
            os.remove(os.path.join(rd, fn))
    known = [k for k in load_known() if k["property"] == pid]
    hits = collections.OrderedDict()
    mc = []
    timers = '{"u1", "u2"}' if tier == "quick" else '{"u1", "u2", "u3"}'
    for rep, expect_ok in (("TRUE", True), ("FALSE", False)):
        cfgp = os.path.join(wd, "DQ_%s.cfg" % rep)
        write_cfg(cfgp, ["SPECIFICATION Spec", "CONSTANTS Timers = %s" % timers, " Repaired = %s" % rep,
                         "INVARIANT NoUseAfterFree", "INVARIANT AtMostOnce", "INVARIANT CancelWins", "INVARIANT MutexSane",
                         "INVARIANT NoDeadlock", "CHECK_DEADLOCK FALSE"])
        cmd = tlc_cmd("DelayQueue.tla", cfgp, os.path.join(wd, "meta"), workers=4)
        cmd[cmd.index("-config") + 1] = cfgp
        (rc, out), = run_parallel([cmd], timeout=1200)
        p = parse_tlc(out)
        violated = "is violated" in out
        if expect_ok and not p["ok"]:
            print(out[-2500:])
            print("MODEL FAILURE / invariant violated: DelayQueue.tla (Repaired = TRUE, the protocol of the code)")
            sys.exit(2)
        if not expect_ok and not violated:
            print("MODEL FAILURE: DelayQueue.tla does not exhibit the deadlock for Repaired = FALSE (vacuous model)")
            sys.exit(2)
        mc.append({"repaired": rep, "distinct": p["distinct"], "generated": p["states"],
                   "result": "all invariants hold" if expect_ok else "violated (expected: deadlock / use after free of the old protocol)"})
    # real code
    nforced = 8 if tier == "quick" else 40
    nrand = 25 if tier == "quick" else 400     # per process
    jobs = [(os.path.join(wd, "forced.ndjson"), [os.path.join(BIN, "mt_delay"), os.path.join(wd, "forced.ndjson"), str(nforced), str(seed()), "forced"])]
    for i in range(NCPU - 1):
        tr = os.path.join(wd, "rand%02d.ndjson" % i)
        jobs.append((tr, [os.path.join(BIN, "mt_delay"), tr, str(nrand), str(seed() * 40 + i), "random"]))
    res = run_parallel([j[1] for j in jobs], timeout=3000)
    for (rc, out), j in zip(res, jobs):
        if rc != 0:
            print(out[-1000:])
            print("HARNESS FAILURE: mt_delay")
            sys.exit(2)
    outs = run_parallel([tlc_cmd("Trace_Delay.tla", "Trace_Delay.cfg", os.path.join(wd, "meta%02d" % i)) for i in range(len(jobs))],
                        env=[{"TRACE": j[0]} for j in jobs], timeout=1800)
    verdicts = []
    tstates = 0
    runs = 0
    for (rc, out), j in zip(outs, jobs):
        p = parse_tlc(out)
        if not p["ok"] or p["error"]:
            print(out[-2000:])
            print("MODEL FAILURE: Trace_Delay")
            sys.exit(2)
        tstates += p["distinct"]
        for v in p["verdicts"]:
            v["trace"] = j[0]
            verdicts.append(v)
        with open(j[0]) as f:
            runs += sum(1 for l in f if '"k":"reset"' in l)
    # timing / watchdog verdicts are only reported if a re-run of the same configuration repeats them
    confirmed = []
    if verdicts:
        by_trace = collections.defaultdict(list)
        for v in verdicts:
            by_trace[v["trace"]].append(v)
        for tr, vs in by_trace.items():
            j = next(j for j in jobs if j[0] == tr)
            tr2 = tr + ".rerun"
            cmd = list(j[1])
            cmd[1] = tr2
            run_parallel([cmd], timeout=3000)
            (rc, out), = run_parallel([tlc_cmd("Trace_Delay.tla", "Trace_Delay.cfg", os.path.join(wd, "metar"))], env={"TRACE": tr2})
            again = parse_tlc(out)["verdicts"]
            whys = set(v["why"] for v in again)
            confirmed += [v for v in vs if v["why"] in whys]
    viol = []
    for v in confirmed:
        k = next((k for k in known if k.get("signature") == v["why"]), None)
        if k:
            hits.setdefault(k["id"], [k, 0])[1] += 1
        else:
            viol.append(v)
    paths = []
    if viol:
        rp = os.path.join(rd, "C09-delay.json")
        with open(rp, "w") as f:
            json.dump({"property": "C09", "kind": "mt_delay", "verdicts": viol[:50]}, f, indent=1)
        paths.append(rp)
    cov = {"states": sum(m["distinct"] for m in mc) + tstates, "transitions": sum(m["generated"] for m in mc) + tstates,
           "traces_validated_against_impl": runs,
           "samples": [{"mode": "forced", "runs": nforced, "schedule": "timer thread parked at dq.cb.unlocked until <cancel> of the same send id is inside cancelDelayed()"},
                       {"mode": "random", "runs_per_process": nrand, "processes": NCPU - 1, "delays_ms": [0, 5, 10, 20, 40, 80]}],
           "model_checking": mc, "unconfirmed_timing_verdicts": len(verdicts) - len(confirmed)}
    write_evidence(pid, tier, "model_checking", cov, time.time() - t0, len(viol),
                   ["timer granularity 5 ms for 'not early' (libevent reads CLOCK_MONOTONIC_COARSE: one kernel tick), due order only required for due times >= 12 ms apart",
                    "libevent 2.1.12: event_del() from another thread waits for a running callback of that event (events without EV_FINALIZE)",
                    "scheduling latency is not bounded by the model; a timing verdict is reported only if a re-run repeats it"])
    finish(pid, paths, ["%s (%d)" % (h[0]["what"], h[1]) for h in hits.values()])
