"""C14: serialized state resumes to identical behaviour.  Every macrostep boundary of every run is a
snapshot point (fault enumeration over crash points): the original interpreter is serialized there, a
FRESH interpreter for the same document is given the text, and the concatenation
   prefix (original) . resume . continuation (fresh)
must be a behaviour of the specification in which Resume leaves every abstract variable unchanged.
A state string of a different document must be rejected."""
import collections, json, os, random, subprocess, time
from vlib import *
import campaign, families, directed, findings
from checks_interp import write_replay, classified


def build_resume_campaign(tier, sd):
    rnd = random.Random(sd * 23 + 9)
    cp = campaign.Campaign("resume", tier)
    charts = []
    for c in directed.charts():
        c.tags.append("D:" + c.name)
        charts.append(c)
    nE = 0
    for (n, m, frac) in ((2, 1, 0.5 if tier == "quick" else 1.0), (3, 1, 0.04 if tier == "quick" else 0.4)):
        for desc in families.enum_E(n, m):
            if rnd.random() < frac:
                c = families.build_E(desc)
                c.tags.append("E(%d,%d)" % (n, m))
                charts.append(c)
                nE += 1
    rc = families.RandomCharts(sd * 4099 + 1)
    for i in range(120 if tier == "quick" else 1500):
        charts.append(rc.chart())
    # history recorded before the snapshot (several levels deep, non-default children) and restored after it
    hwords = families.words_H(5)
    for desc in families.enum_H():
        c = families.build_H(desc)
        c.hwords = [["next", "out", "back"], ["next", "next", "out", "back"], ["next", "out", "back", "next", "out"]] + \
                   rnd.sample(hwords, 10 if tier == "quick" else 60)
        charts.append(c)
    for c in charts:
        cid = cp.add_chart(c)
        if "H" in c.tags:
            ws = c.hwords
        elif "R" in c.tags:
            ws = [rc.word(c, 5) for _ in range(2)]
        else:
            ws = families.words(c, 2)
            for w in directed.WORDS.get(getattr(c, "name", ""), []):
                ws.append(w)
        for w in ws:
            # snapshot points: the k-th stable return (MACROSTEPPED / IDLE); there are about 2 per event
            kmax = 2 * (len(w) + 1)
            for k in range(1, kmax + 1):
                cp.cases.append({"chart": cid, "dm": "lua", "mode": "resume@%d" % k, "word": list(w)})
            if len(w) >= 2:
                for k in (1, 2, 3):      # with pending external events
                    cp.cases.append({"chart": cid, "dm": "lua", "mode": "presume@%d" % k, "word": list(w)})
    cp.meta["families"]["resume"] = {"charts": len(charts), "exhaustive_snapshot_points": True}
    return cp


def foreign_check():
    """a state string that belongs to a different document must be rejected"""
    cs = directed.charts()[:8]
    wd = os.path.join(OUT, "c14")
    os.makedirs(wd, exist_ok=True)
    docs = []
    for i, c in enumerate(cs):
        p = os.path.join(wd, "f%d.scxml" % i)
        with open(p, "w") as f:
            f.write(c.render("lua"))
        docs.append(p)
    for attempt in range(3):     # a harness failure is only reported if a re-run repeats it
        r = sh(["timeout", "120", os.path.join(BIN, "fn_replay"), "foreign"] + docs, stdout=subprocess.PIPE, stderr=subprocess.DEVNULL, text=True)
        if "DONE" in r.stdout:
            break
        print("fn_replay foreign: attempt %d ended with rc=%d without DONE" % (attempt + 1, r.returncode))
    bad = [l for l in r.stdout.splitlines() if l.startswith("ACCEPTED ")]
    n = sum(1 for l in r.stdout.splitlines() if l.startswith("REJECTED ") or l.startswith("ACCEPTED "))
    own = [l for l in r.stdout.splitlines() if l.startswith("OWNFAIL ")]
    if "DONE" not in r.stdout:
        print(r.stdout[-1500:])
        print("HARNESS FAILURE: fn_replay foreign")
        sys.exit(2)
    return n, bad, own


def run(pid, tier):
    t0 = time.time()
    rd = os.path.join(OUT, "replay")
    os.makedirs(rd, exist_ok=True)
    for fn in os.listdir(rd):
        if fn.startswith(pid + "-"):
            os.remove(os.path.join(rd, fn))
    result = campaign.cached_campaign(tier, builder=build_resume_campaign, name="resume")
    if result["failures"]:
        print(json.dumps(result["failures"][0])[-3000:])
        print("MODEL/HARNESS FAILURE: resume campaign")
        sys.exit(2)
    with open(os.path.join(result["workdir"], "charts.ndjson")) as f:
        charts = [json.loads(l) for l in f]
    known = [k for k in load_known() if k["property"] == pid]
    viol, hits = [], collections.OrderedDict()
    c14 = []
    for eng in result["engines"]:
        p = os.path.join(result["workdir"], "class14.%s.json" % eng)
        if os.path.exists(p):
            d = json.load(open(p))
        else:
            un, amb, sta = campaign.classify_c01(result, eng, prop="C14")
            d = {"un": un, "amb": amb, "sta": sta}
            json.dump(d, open(p, "w"))
        c14 += d["un"]          # runs that only deviate by the static pre-emption rule are KF-C01-1, not a resume defect
    for v in c14:
        k = findings.match(known, v, charts[v["chart"] - 1] if v.get("chart") else None, {})
        if k:
            hits.setdefault(k["id"], [k, 0])[1] += 1
        else:
            viol.append(v)
    nforeign, accepted, ownfail = foreign_check()
    paths = [write_replay(pid, result, v) for v in viol[:10]]
    if accepted or ownfail:
        rp = os.path.join(rd, "C14-foreign.json")
        with open(rp, "w") as f:
            json.dump({"property": "C14", "kind": "foreign", "accepted": accepted, "own_rejected": ownfail}, f, indent=1)
        paths.append(rp)
    modes = collections.Counter()
    cov = {"evaluations": result["traces"], "distinct_nontrivial": result["cases"],
           "rule": "a case is (chart, event word, snapshot point k, delivery): the run is serialized after its k-th stable return and continued in a fresh interpreter; "
                   "every k up to the number of macrosteps of the word is used; presume@k = all events already queued at the snapshot (pending external events). "
                   "Both engines. Plus foreign-document rejection for all ordered pairs of %d documents" % 8,
           "samples": [c for c in (dict(x) for x in [])] or [{"mode": "resume@2", "meaning": "snapshot after the 2nd MACROSTEPPED/IDLE return"}],
           "families": result["families"], "charts": result["charts"], "trace_lines": result["trace_lines"],
           "step_calls_validated": result["step_calls"], "tlc_states": result["tlc_states"],
           "foreign_pairs": nforeign, "foreign_accepted": len(accepted)}
    write_evidence(pid, tier, "fault_enumeration", cov, time.time() - t0, len(viol) + len(accepted) + len(ownfail),
                   ["pending delayed sends are not in the reference fragment (covered by C09's delay specification only)",
                    "the re-announcement of the stable configuration after resume is allowed (stuttering)"])
    finish(pid, paths, ["%s (%d cases in this run)" % (h[0]["what"], h[1]) for h in hits.values()])
