"""Orchestration helpers shared by all checks: build, run harnesses, run TLC,
parse verdicts, match known findings, write evidence.  Python only orchestrates;
TLC is the judge (DESIGN.md section 2)."""
import hashlib
import json
import os
import re
import subprocess
import sys
import time

# VERIF_ROOT: a scratch copy of this directory (development in parallel to running checks); unset: /verif
ROOT = os.environ.get("VERIF_ROOT", "/verif")
# VERIF_SANDBOX=<dir>: run the same machinery against <dir>/repo (a scratch worktree), building into <dir>/build and
# writing results, caches and evidence below <dir> -- used by lib/selftest.py so that seeded changes never touch
# /repo, /verif/build or /verif/evidence.  Unset (the registered commands): /repo and /verif.
SANDBOX = os.environ.get("VERIF_SANDBOX", "")
REPO = os.path.join(SANDBOX, "repo") if SANDBOX else "/repo"
BUILD = os.path.join(SANDBOX, "build") if SANDBOX else os.path.join(ROOT, "build")
OUT = os.path.join(SANDBOX, "out") if SANDBOX else os.path.join(ROOT, "out")
EVIDENCE = os.path.join(SANDBOX, "evidence") if SANDBOX else os.path.join(ROOT, "evidence")
SPEC = os.path.join(ROOT, "spec")
BIN = os.path.join(BUILD, "bin")
HOOKS = os.path.join(BUILD, "hooks")
TLA_JAR = "/opt/veriftools/tla/tla2tools.jar:/opt/veriftools/tla/CommunityModules-deps.jar"
NCPU = 16

sys.path.insert(0, os.path.join(ROOT, "gen"))


def seed():
    try:
        return int(os.environ.get("VERIF_SEED", "1"))
    except ValueError:
        return 1


def sh(cmd, **kw):
    return subprocess.run(cmd, shell=isinstance(cmd, str), **kw)


def ensure_build():
    """incremental build of /repo's working tree + harnesses, serialised by flock"""
    os.makedirs(BUILD, exist_ok=True)
    os.makedirs(OUT, exist_ok=True)
    r = sh("flock %s/.lock make -s -C %s build REPO=%s B=%s" % (BUILD, ROOT, REPO, BUILD), stdout=subprocess.PIPE,
           stderr=subprocess.STDOUT, text=True)
    if r.returncode != 0:
        print(r.stdout[-4000:])
        print("BUILD FAILED: the working tree of /repo does not build; this is a failure of the check, not a verdict")
        sys.exit(2)


def file_hash(paths):
    h = hashlib.sha256()
    for p in sorted(paths):
        if os.path.isdir(p):
            for dp, _, fns in sorted(os.walk(p)):
                for fn in sorted(fns):
                    if fn.endswith((".pyc",)):
                        continue
                    with open(os.path.join(dp, fn), "rb") as f:
                        h.update(fn.encode())
                        h.update(f.read())
        elif os.path.exists(p):
            with open(p, "rb") as f:
                h.update(p.encode())
                h.update(f.read())
    return h.hexdigest()[:20]


def impl_hash():
    """identifies the implementation under test and the machinery version"""
    return file_hash([os.path.join(HOOKS, "lib", "libuscxml.so.2.0.0"),
                      os.path.join(HOOKS, "lib", "libuscxml_transform.so.2.0.0"),
                      os.path.join(ROOT, "gen"), os.path.join(ROOT, "spec"),
                      os.path.join(ROOT, "harness"), os.path.join(ROOT, "lib", "campaign.py")])


def run_parallel(cmds, nproc=NCPU, timeout=None, env=None):
    """run commands (argv lists) in parallel; returns list of (rc, output).
    Output goes to temporary files, never to pipes (a full pipe would block the child)."""
    import tempfile
    results = [None] * len(cmds)
    running = []
    idx = 0
    os.makedirs(os.path.join(OUT, "tmp"), exist_ok=True)
    while idx < len(cmds) or running:
        while idx < len(cmds) and len(running) < nproc:
            e = dict(os.environ)
            if env:
                e.update(env[idx] if isinstance(env, list) else env)
            tf = tempfile.TemporaryFile(mode="w+", dir=os.path.join(OUT, "tmp"))
            p = subprocess.Popen(cmds[idx], stdout=tf, stderr=subprocess.STDOUT, env=e)
            running.append((idx, p, time.time(), tf))
            idx += 1
        still = []
        for (i, p, t0, tf) in running:
            rc = p.poll()
            if rc is None and timeout and time.time() - t0 > timeout:
                p.kill()
                p.wait()
                rc = 124
            if rc is None:
                still.append((i, p, t0, tf))
            else:
                tf.seek(0)
                results[i] = (rc, tf.read())
                tf.close()
        running = still
        if running:
            time.sleep(0.02)
    return results


def tlc_cmd(module, cfg, metadir, workers=1, xmx="2500m", extra=()):
    return ["timeout", "9000", "java", "-XX:+UseParallelGC", "-XX:ParallelGCThreads=2", "-Xss64m", "-Xmx" + xmx,
            "-cp", TLA_JAR, "tlc2.TLC", "-noGenerateSpecTE", "-workers", str(workers), "-metadir", metadir,
            "-config", os.path.join(SPEC, cfg), os.path.join(SPEC, module)] + list(extra)


VERDICT_RE = re.compile(r'^"VERDICT (.*)"$')


def parse_tlc(out):
    """returns dict(verdicts, states, distinct, ok, error)"""
    verdicts = []
    counts = {}
    states = distinct = 0
    ok = False
    err = None
    for line in out.splitlines():
        mm = VERDICT_RE.match(line)
        if mm:
            # the printed TLA+ string literal: undo the escaping of \" and \\
            try:
                verdicts.append(json.loads(json.loads('"' + mm.group(1) + '"')))
            except Exception as e:  # noqa
                err = "unparsable verdict: " + line[:200]
            continue
        if line.startswith('"COUNTS '):
            try:
                for name, n in json.loads(json.loads(line)[7:]):
                    counts[name] = counts.get(name, 0) + n
            except Exception:
                pass
            continue
        mm = re.match(r"^(\d+) states generated, (\d+) distinct states found", line)
        if mm:
            states, distinct = int(mm.group(1)), int(mm.group(2))
        if line.startswith("Model checking completed. No error has been found."):
            ok = True
        if line.startswith("Error:") and err is None:
            err = line
    return {"verdicts": verdicts, "counts": counts, "states": states, "distinct": distinct, "ok": ok, "error": err}


def write_cfg(path, lines):
    with open(path, "w") as f:
        f.write("\n".join(lines) + "\n")


# ------------------------------------------------------------------ known findings
def load_known():
    p = os.path.join(ROOT, "known_findings.json")
    if not os.path.exists(p):
        return []
    with open(p) as f:
        return json.load(f).get("findings", [])


# ------------------------------------------------------------------ evidence
def write_evidence(pid, tier, level, coverage, wall_s, violations, assumptions=()):
    os.makedirs(EVIDENCE, exist_ok=True)
    ev = {"property_id": pid, "tier": tier, "seed": seed(), "level": level,
          "coverage": coverage, "assumptions": list(assumptions),
          "wall_s": round(wall_s, 2), "violations": violations}
    with open(os.path.join(EVIDENCE, pid + ".json"), "w") as f:
        json.dump(ev, f, indent=1)
    return ev


def finish(pid, violations, known_lines):
    """print the interface lines and exit accordingly"""
    for k in known_lines:
        print("KNOWN-FINDING: property=%s %s" % (pid, k))
    for v in violations:
        print("VIOLATION property=%s replay=%s" % (pid, v))
    sys.exit(1 if violations else 0)
