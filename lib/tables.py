"""Structural tables (C05): charts -> ChartToC / ChartToPromela / ChartToVHDL (xform with VERIF_ANNOT) ->
the annotated document and the tables embedded in the emitted C and Promela text -> observations with
uSCXML's indices translated to the chart's own -> TLC (spec/Tables.tla)."""
import fcntl, json, os, random, re, shutil, time
import xml.etree.ElementTree as ET
from vlib import *
import campaign
import chart as chartmod
import families, directed

NS = "{http://www.w3.org/2005/07/scxml}"
STATE_TAGS = ("scxml", "state", "parallel", "final", "history", "initial")


def build_tables_campaign(tier, sd):
    rnd = random.Random(sd * 59 + 5)
    cp = campaign.Campaign("tables", tier)

    def add(c, tag):
        cp.add_chart(c)
        c.tags.append(tag)
    for c in directed.charts():
        if not pml_ok(c):
            continue
        add(c, "D:" + c.name)

    def add_E(n, m, frac, tl=False):
        for desc in families.enum_E(n, m, tlast_variants=tl):
            if frac < 1.0 and rnd.random() >= frac:
                continue
            add(families.build_E(desc), "E(%d,%d)" % (n, m))
    if tier == "quick":
        add_E(1, 1, 1.0)
        add_E(2, 1, 1.0)
        add_E(3, 1, 0.1)
        add_E(2, 2, 0.02, tl=True)
        nrand = 80
    else:
        add_E(1, 1, 1.0)
        add_E(2, 1, 1.0)
        add_E(3, 1, 1.0)
        add_E(2, 2, 0.3, tl=True)
        add_E(4, 1, 0.05)
        nrand = 2000
    for desc in families.enum_P():
        if rnd.random() < (0.1 if tier == "quick" else 1.0):
            add(families.build_P(desc), "P")
    for desc in families.enum_H():
        add(families.build_H(desc), "H")
    rc = families.RandomCharts(sd * 739 + 5)
    n0 = len(cp.charts)
    for _ in range(nrand * 4):
        if len(cp.charts) - n0 >= nrand:
            break
        c = rc.chart()
        if pml_ok(c):
            add(c, "R")
    return cp


def pml_ok(c):
    """the tables are independent of executable content; charts whose content the Promela back-end cannot
    express are stripped of it (structure kept)"""
    v = json.dumps(c.to_value())
    if '"fault"' in v or '"berr"' in v or '"ierr"' in v or c.binding == "late":
        for n in c.states:
            n.onentry, n.onexit = [], []
        for t in c.trans:
            t.content = []
            if t.cond is not None and not chartmod.bexpr_uses_only_in(t.cond):
                t.cond = None
        c.binding = "early"
    return True


def bits(s):
    return [i for i, ch in enumerate(s) if ch == "1"]


def read_annot(path, c):
    """annotated document -> (observation, state index map u->mine, post->mine transition map)"""
    text = open(path, errors="replace").read()
    text = re.sub(r"^<\?xml[^>]*\?>", "", text)
    root = ET.fromstring(text)
    byid = {c.sid(n): n.idx for n in c.states if n.kind != "initial"}
    umap = {}      # uSCXML documentOrder -> my state index
    elems = {}     # my state index -> element
    order = []

    def walk(e, myparent):
        tag = e.tag.replace(NS, "")
        if tag not in STATE_TAGS:
            return
        if tag == "scxml":
            mine = 1
        elif tag == "initial":
            cand = [n.idx for n in c.states if n.kind == "initial" and n.parent.idx == myparent]
            mine = cand[0] if cand else 0
        else:
            mine = byid.get(e.get("id"), 0)
        u = int(e.get("documentOrder"))
        umap[u] = mine
        elems[mine] = e
        for k in e:
            walk(k, mine)
    walk(root, 0)
    if 0 in elems or len(umap) != len(c.states):
        raise ValueError("cannot identify the states of the annotated document")
    order = [umap[u] for u in sorted(umap)]
    states = []
    for mine in sorted(elems):
        e = elems[mine]
        states.append({"s": mine, "parent": umap[int(e.get("parent"))] if e.get("parent") not in (None, "") else 0,
                       "children": sorted(umap[i] for i in bits(e.get("childBools", ""))),
                       "anc": sorted(umap[i] for i in bits(e.get("ancBools", ""))),
                       "completion": sorted(umap[i] for i in bits(e.get("completionBools", "")))})
    # transitions: by source element and position among its transitions
    tmap = {}      # postFixOrder -> my transition index
    tel = {}
    for mine, e in elems.items():
        mts = [t.idx for t in c.trans if t.src.idx == mine]
        k = 0
        for ch in e:
            if ch.tag.replace(NS, "") == "transition":
                if k >= len(mts):
                    raise ValueError("more transitions than in the chart")
                tmap[int(ch.get("postFixOrder"))] = mts[k]
                tel[mts[k]] = ch
                k += 1
    trans = []
    for mine in sorted(tel):
        e = tel[mine]
        trans.append({"t": mine, "post": int(e.get("postFixOrder")), "source": umap[int(e.get("source"))],
                      "target": sorted(umap[i] for i in bits(e.get("targetBools", ""))),
                      "exit": sorted(umap[i] for i in bits(e.get("exitSetBools", ""))),
                      "conflicts": sorted(tmap[i] for i in bits(e.get("conflictBools", "")) if i in tmap)})
    return {"order": order, "states": states, "trans": trans}, umap, tmap


def bitcomment(s):
    m = re.search(r"/\*\s*([01]*)\s*\*/", s)
    return m.group(1) if m else ""


def read_c(path, umap, tmap):
    text = open(path, errors="replace").read()
    states, trans = [], []
    for m in re.finditer(r"/\* state number (\d+) \*/(.*?)/\* type ", text, re.S):
        u = int(m.group(1))
        body = m.group(2)
        f = {}
        for key in ("parent", "children", "completion", "ancestors"):
            mm = re.search(r"/\* %s\s*\*/\s*([^\n]*)" % key, body)
            f[key] = mm.group(1) if mm else ""
        states.append({"s": umap[u], "parent": umap[int(f["parent"].strip().rstrip(","))] if u != 0 else 0,
                       "children": sorted(umap[i] for i in bits(bitcomment(f["children"]))),
                       "anc": sorted(umap[i] for i in bits(bitcomment(f["ancestors"]))),
                       "completion": sorted(umap[i] for i in bits(bitcomment(f["completion"])))})
    for m in re.finditer(r"/\* transition number (\d+) with priority (\d+)(.*?)/\* exit set\s*\*/\s*([^\n]*)", text, re.S):
        post = int(m.group(2))
        body = m.group(3)
        f = {}
        for key in ("source", "target", "conflicts"):
            mm = re.search(r"/\* %s\s*\*/\s*([^\n]*)" % key, body)
            f[key] = mm.group(1) if mm else ""
        trans.append({"t": tmap[post], "post": post, "source": umap[int(f["source"].strip().rstrip(","))],
                      "target": sorted(umap[i] for i in bits(bitcomment(f["target"]))),
                      "exit": sorted(umap[i] for i in bits(bitcomment(m.group(4)))),
                      "conflicts": sorted(tmap[i] for i in bits(bitcomment(f["conflicts"])) if i in tmap)})
    return {"states": sorted(states, key=lambda r: r["s"]), "trans": sorted(trans, key=lambda r: r["t"])}


def read_pml(path, umap, tmap):
    text = open(path, errors="replace").read()
    st = {u: {"parent": 0, "children": [], "ancestors": [], "completion": []} for u in umap}
    tr = {p: {"source": 0, "target": [], "conflicts": [], "exit_set": []} for p in tmap}
    for m in re.finditer(r"ROOT_states\[(\d+)\]\.(parent|children|ancestors|completion)(?:\[(\d+)\])? = (\d+);", text):
        u, key, j, v = int(m.group(1)), m.group(2), m.group(3), int(m.group(4))
        if key == "parent":
            st[u]["parent"] = v
        elif v:
            st[u][key].append(int(j))
    for m in re.finditer(r"ROOT_transitions\[(\d+)\]\.(source|target|conflicts|exit_set)(?:\[(\d+)\])? = (\d+);", text):
        p, key, j, v = int(m.group(1)), m.group(2), m.group(3), int(m.group(4))
        if key == "source":
            tr[p]["source"] = v
        elif v:
            tr[p][key].append(int(j))
    states = [{"s": umap[u], "parent": umap[r["parent"]] if u != 0 else 0, "children": sorted(umap[i] for i in r["children"]),
               "anc": sorted(umap[i] for i in r["ancestors"]), "completion": sorted(umap[i] for i in r["completion"])}
              for u, r in st.items()]
    trans = [{"t": tmap[p], "post": p, "source": umap[r["source"]], "target": sorted(umap[i] for i in r["target"]),
              "exit": sorted(umap[i] for i in r["exit_set"]), "conflicts": sorted(tmap[i] for i in r["conflicts"] if i in tmap)}
             for p, r in tr.items()]
    return {"states": sorted(states, key=lambda r: r["s"]), "trans": sorted(trans, key=lambda r: r["t"])}


def run_tables(cp, workdir):
    t0 = time.time()
    os.makedirs(workdir, exist_ok=True)
    charts_file = os.path.join(workdir, "charts.ndjson")
    campaign.write_charts(cp, charts_file)
    gen = os.path.join(workdir, "gen")
    os.makedirs(gen, exist_ok=True)
    nsh = NCPU
    cmds = []
    for i in range(nsh):
        bp = os.path.join(gen, "xf%02d.batch" % i)
        with open(bp, "wb") as f:
            for c in cp.charts:
                if c.cid % nsh == i:
                    for be, dm in (("c", "lua"), ("pml", "promela"), ("vhdl", "lua")):
                        y = c.render(dm).encode()
                        f.write(("DOC m%d %s %d\n" % (c.cid, be, len(y))).encode() + y + b"\n")
        cmds.append([os.path.join(BIN, "xform"), bp, gen])
    res = run_parallel(cmds, env=[{"VERIF_ANNOT": "1"}] * len(cmds))
    t1 = time.time()
    obs_by_shard = [[] for _ in range(nsh)]
    nobs = 0
    for c in cp.charts:
        for be in ("c", "pml", "vhdl"):
            base = {"ci": 0, "chart": c.cid, "backend": be, "place": "annot", "error": "", "order": [], "states": [], "trans": []}
            ap = os.path.join(gen, "m%d.%s.annot" % (c.cid, be))
            out = []
            try:
                o, umap, tmap = read_annot(ap, c)
                out.append(dict(base, **o))
                if be == "c":
                    out.append(dict(base, place="emb", order=o["order"], **read_c(os.path.join(gen, "m%d.c" % c.cid), umap, tmap)))
                elif be == "pml":
                    out.append(dict(base, place="emb", order=o["order"], **read_pml(os.path.join(gen, "m%d.pml" % c.cid), umap, tmap)))
            except Exception as ex:      # unreadable output is an observation, not a crash of the check
                out.append(dict(base, error="%s: %s" % (type(ex).__name__, str(ex)[:200])))
            obs_by_shard[c.cid % nsh].extend((c, o) for o in out)
            nobs += len(out)
    jobs = []
    for si, lst in enumerate(obs_by_shard):
        if not lst:
            continue
        cf = os.path.join(workdir, "s%02d.charts.ndjson" % si)
        of = os.path.join(workdir, "s%02d.obs.ndjson" % si)
        idx = {}
        with open(cf, "w") as fc, open(of, "w") as fo:
            for c, o in lst:
                if c.cid not in idx:
                    idx[c.cid] = len(idx) + 1
                    v = c.to_value()
                    v["alphabet"] = []
                    fc.write(chartmod.dumps(v) + "\n")
                o["ci"] = idx[c.cid]
                fo.write(chartmod.dumps(o) + "\n")
        cfgp = os.path.join(workdir, "Tables.cfg")
        write_cfg(cfgp, ["SPECIFICATION Spec", "CONSTANT Variants = {}", "CHECK_DEADLOCK FALSE", "POSTCONDITION Done"])
        cmd = tlc_cmd("Tables.tla", cfgp, os.path.join(workdir, "meta.s%02d" % si))
        cmd[cmd.index("-config") + 1] = cfgp
        jobs.append((si, cmd, {"CHARTS": cf, "OBS": of}))
    outs = run_parallel([j[1] for j in jobs], env=[j[2] for j in jobs], timeout=6000)
    verdicts, failures = [], []
    for j, (rc, out) in zip(jobs, outs):
        p = parse_tlc(out)
        if not p["ok"] or p["error"]:
            failures.append({"shard": j[0], "rc": rc, "tail": out[-1500:]})
        verdicts.extend(p["verdicts"])
        shutil.rmtree(os.path.join(workdir, "meta.s%02d" % j[0]), ignore_errors=True)
    t2 = time.time()
    shutil.rmtree(gen, ignore_errors=True)
    result = {"charts": len(cp.charts), "observations": nobs,
              "states": sum(len(c.states) for c in cp.charts), "transitions": sum(len(c.trans) for c in cp.charts),
              "verdicts": verdicts, "failures": failures, "t_transform": round(t1 - t0, 1), "t_judge": round(t2 - t1, 1)}
    if not failures:
        with open(os.path.join(workdir, "result.json"), "w") as f:
            json.dump(result, f)
    return result


def cached_tables(tier):
    ensure_build()
    h = file_hash([os.path.join(HOOKS, "lib", "libuscxml_transform.so.2.0.0"), os.path.join(HOOKS, "lib", "libuscxml.so.2.0.0"),
                   os.path.join(ROOT, "gen"), os.path.join(ROOT, "spec"), os.path.join(ROOT, "harness", "xform.cpp"),
                   os.path.join(ROOT, "lib", "tables.py"), os.path.join(ROOT, "lib", "campaign.py")])
    key = "tables-%s-%d-%s" % (tier, seed(), h)
    base = os.path.join(OUT, "cache")
    os.makedirs(base, exist_ok=True)
    workdir = os.path.join(base, key)
    lock = open(os.path.join(base, key + ".lock"), "w")
    fcntl.flock(lock, fcntl.LOCK_EX)
    try:
        rp = os.path.join(workdir, "result.json")
        if os.path.exists(rp):
            with open(rp) as f:
                r = json.load(f)
        else:
            for d in os.listdir(base):
                if d.startswith("tables-%s-" % tier) and d != key and not d.endswith(".lock"):
                    shutil.rmtree(os.path.join(base, d), ignore_errors=True)
            r = run_tables(build_tables_campaign(tier, seed()), workdir)
        r["workdir"] = workdir
        return r
    finally:
        fcntl.flock(lock, fcntl.LOCK_UN)
        lock.close()
