"""C16: values survive the trip through the Lua datamodel.  TLC enumerates values x ways in
(spec/MC_LuaValue.tla; the specification of the trip is the identity); each vector is pushed into a
live lua-datamodel interpreter (assign / init / event payload) and read back with evalAsData; the
five system variables must reject assignment with error.execution and stay unchanged."""
import collections, json, os, subprocess, time
from vlib import *

STRS = {1: "", 2: "a", 3: "1", 4: "1.5", 5: "nil", 6: "true", 7: "return 1", 8: "a b", 9: "x.y", 10: "-2"}
REALS = {1: "1.5", 2: "-0.25"}
KEYS = {1: "k", 2: "x y", 3: "a1"}


def hx(s):
    b = s.encode()
    return b.hex() if b else "-"


def enc(v):
    t = v["t"]
    if t == "str":
        return "A V " + hx(STRS[v["s"]])
    if t == "int":
        return "A I " + hx(str(v["n"]))
    if t == "real":
        return "A I " + hx(REALS[v["n"]])
    if t == "bool":
        return "A I " + hx("true" if v["b"] else "false")
    if t == "arr":
        return "L %d" % len(v["e"]) + "".join(" " + enc(x) for x in v["e"])
    return "M %d" % len(v["k"]) + "".join(" K %s %s" % (hx(KEYS[k]), enc(x)) for k, x in zip(v["k"], v["v"]))


def features(v):
    out = set()

    def walk(x, top):
        t = x["t"]
        if t == "str" and x["s"] == 1:
            out.add("empty-string")
        if t == "arr":
            if not x["e"]:
                out.add("empty-array")
            for e in x["e"]:
                walk(e, False)
        if t == "map":
            for e in x["v"]:
                walk(e, False)
    walk(v, True)
    return out


def run(pid, tier):
    t0 = time.time()
    ensure_build()
    wd = os.path.join(OUT, "c16")
    os.makedirs(wd, exist_ok=True)
    rd = os.path.join(OUT, "replay")
    os.makedirs(rd, exist_ok=True)
    for fn in os.listdir(rd):
        if fn.startswith("C16-"):
            os.remove(os.path.join(rd, fn))
    (rc, out), = run_parallel([tlc_cmd("MC_LuaValue.tla", "MC_LuaValue.cfg", os.path.join(wd, "meta"))],
                              env={"LEVEL": "1" if tier == "quick" else "2"}, timeout=900)
    p = parse_tlc(out)
    vecs = [json.loads(json.loads(l)[4:]) for l in out.splitlines() if l.startswith('"VEC ')]
    if not p["ok"] or not vecs:
        print(out[-2000:])
        print("MODEL FAILURE: MC_LuaValue")
        sys.exit(2)
    vf = os.path.join(wd, "vectors.txt")
    with open(vf, "w") as f:
        for v in vecs:
            f.write(v["w"] + " " + enc(v["v"]) + "\n")
    r = sh(["timeout", "600", os.path.join(BIN, "fn_replay"), "lua", vf], stdout=subprocess.PIPE, stderr=subprocess.DEVNULL, text=True)
    if "DONE" not in r.stdout:
        print(r.stdout[-1500:])
        print("HARNESS FAILURE: fn_replay lua")
        sys.exit(2)
    diffs = []
    pn = []
    for line in r.stdout.splitlines():
        parts = line.split(" ", 3)
        if parts[0] == "L" and parts[2] != "ok":
            i = int(parts[1]) - 1
            diffs.append({"way": vecs[i]["w"], "value": vecs[i]["v"], "outcome": parts[2], "got": parts[3] if len(parts) > 3 else "",
                          "features": sorted(features(vecs[i]["v"]))})
        elif parts[0] == "PN":
            raised = "raised=1" in line
            unchanged = "unchanged=1" in line
            if not (raised and unchanged):
                pn.append({"name": parts[1], "raised": raised, "unchanged": unchanged})
    known = [k for k in load_known() if k["property"] == pid]
    hits = collections.OrderedDict()
    viol = []
    for d in diffs:
        sig = "lua:" + ("+".join(d["features"]) if d["features"] else "other")
        k = next((k for k in known if k.get("signature") == sig), None)
        if k:
            hits.setdefault(k["id"], [k, 0])[1] += 1
        else:
            d["signature"] = sig
            viol.append(d)
    for d in pn:
        viol.append(dict(d, signature="protected-name"))
    paths = []
    if viol:
        rp = os.path.join(rd, "C16-lua.json")
        with open(rp, "w") as f:
            json.dump({"property": "C16", "kind": "lua", "cases": viol[:200]}, f, indent=1)
        paths.append(rp)
    cov = {"evaluations": len(vecs) + 5, "distinct_nontrivial": len(set(json.dumps(v["v"], sort_keys=True) for v in vecs)),
           "rule": "every value of MC_LuaValue's domain (10 strings incl. empty / number-like / Lua-code-like ones, integers, reals, booleans, arrays, maps with "
                   "non-numeric keys, %s) x ways in {assign, init, event payload}, read back with evalAsData; expected = the value (identity); "
                   "plus assignment to each of the 5 system variables" % ("one container level" if tier == "quick" else "two-element containers and nesting"),
           "samples": vecs[:: max(1, len(vecs) // 4)][:4], "differences": len(diffs), "protected_name_failures": len(pn),
           "tlc_states": p["distinct"], "exhaustive": True,
           "difference_signatures": dict(collections.Counter("+".join(d["features"]) or "other" for d in diffs))}
    write_evidence(pid, tier, "exploration", cov, time.time() - t0, len(viol),
                   ["ways in: DataModel::assign, DataModel::init, event payload via setEvent; way out: evalAsData. <param>, namelist, <send> payloads and donedata are not covered",
                    "equality is Data::operator==; numbers are compared through their printed form"])
    finish(pid, paths, ["%s (%d vectors)" % (h[0]["what"], h[1]) for h in hits.values()])
