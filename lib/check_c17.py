"""C17: the Promela datamodel evaluates expressions with Promela's integer semantics.
TLC enumerates expression ASTs up to a depth bound with the value PromelaExpr!Eval
defines and their minimal / full parenthesisation (spec/MC_PromelaExpr.tla); every
(text, expected) vector is replayed through evalAsData / evalAsBool of a live
promela-datamodel interpreter (harness/fn_replay promela), each chunk in a forked child."""
import json, os, time, collections
from vlib import *


def norm(x):
    if x == "true":
        return "1"
    if x == "false":
        return "0"
    return x


def signature(rec):
    """root-cause tags of a disagreement, used to match known findings"""
    ops = set(rec["ops"])
    got, exp = rec["got"], rec["expected"]
    if got.startswith("CRASH8") and exp == "ERR" and ops & {"/", "%"}:
        return "div0-crash"
    if got.startswith("CRASH") and "neg" in ops:
        return "unary-minus-crash"
    if "!=" in ops and got in ("ERR", "0") and exp != "ERR":
        return "ne-unevaluated"
    if {"&&", "||"} <= ops and rec["rendering"] == "min" and rec["full_ok"]:
        return "and-or-precedence"
    if ops & {"&&", "||"} and rec["rfault"] and exp != "ERR" and got == "ERR":
        return "no-short-circuit"
    return "other"


def run(pid, tier):
    t0 = time.time()
    ensure_build()
    wd = os.path.join(OUT, "c17")
    os.makedirs(wd, exist_ok=True)
    rd = os.path.join(OUT, "replay")
    os.makedirs(rd, exist_ok=True)
    for fn in os.listdir(rd):
        if fn.startswith("C17-"):
            os.remove(os.path.join(rd, fn))
    jobs = [("d1", {"DEPTH": "1"})]
    if tier == "quick":
        jobs.append(("d2", {"DEPTH": "2", "MODN": "16", "MODK": str(seed() % 16)}))
    else:
        for k in range(16):
            jobs.append(("d2.%d" % k, {"DEPTH": "2", "MODN": "16", "MODK": str(k)}))
    cmds = [tlc_cmd("MC_PromelaExpr.tla", "MC_PromelaExpr.cfg", os.path.join(wd, "meta." + j[0]), xmx="3g") for j in jobs]
    outs = run_parallel(cmds, env=[j[1] for j in jobs], timeout=1500)
    vecs = []
    states = 0
    for (rc, out), j in zip(outs, jobs):
        p = parse_tlc(out)
        if not p["ok"]:
            print(out[-2000:])
            print("MODEL FAILURE: MC_PromelaExpr", j)
            sys.exit(2)
        states += p["distinct"]
        for line in out.splitlines():
            if line.startswith('"VEC '):
                vecs.append(json.loads(json.loads(line)[4:]))
    # vectors: both renderings
    items = []
    for v in vecs:
        items.append((v["min"], v, "min"))
        if v["full"] != v["min"]:
            items.append((v["full"], v, "full"))
    nsh = NCPU
    files = [open(os.path.join(wd, "v%02d.tsv" % i), "w") for i in range(nsh)]
    for i, (text, v, r) in enumerate(items):
        files[i % nsh].write("%s\t%s\n" % (text, v["v"]))
    for f in files:
        f.close()
    res = run_parallel([[os.path.join(BIN, "fn_replay"), "promela", os.path.join(wd, "v%02d.tsv" % i)] for i in range(nsh)],
                       timeout=1500)
    got = {}
    total = 0
    for rc, o in res:
        if rc != 0 or "DONE" not in o:
            print(o[-1500:])
            print("HARNESS FAILURE: fn_replay promela")
            sys.exit(2)
        for line in o.splitlines():
            if line.startswith("R\t"):
                _, text, exp, d, b = line.split("\t")
                got[text] = (d, b)
                total += 1
    if total < len(set(t for t, _, _ in items)):
        print("HARNESS FAILURE: %d of %d vectors replayed" % (total, len(items)))
        sys.exit(2)
    # compare
    diffs = []
    full_ok = {}
    for text, v, r in items:
        d, b = got[text]
        exp = v["v"]
        ok_d = (norm(d) == exp) if exp != "ERR" else (d == "ERR")
        ok_b = (b == ("1" if exp not in ("0", "ERR") else "0"))
        if r == "full" or v["full"] == v["min"]:
            full_ok[v["full"]] = ok_d and ok_b
        if not (ok_d and ok_b):
            diffs.append({"text": text, "rendering": r, "expected": exp, "got": d, "got_bool": b,
                          "ops": v["ops"], "rfault": v["rfault"], "depth": v["d"], "full": v["full"]})
    for dct in diffs:
        dct["full_ok"] = full_ok.get(dct["full"], False)
    # ---- second half: values written are the values read back (spec/MC_PromelaStore.tla)
    (rc, out), = run_parallel([tlc_cmd("MC_PromelaStore.tla", "MC_PromelaStore.cfg", os.path.join(wd, "meta.store"), xmx="2g")], timeout=900)
    p = parse_tlc(out)
    if not p["ok"]:
        print(out[-2000:])
        print("MODEL FAILURE: MC_PromelaStore")
        sys.exit(2)
    progs, reads = [], None
    for line in out.splitlines():
        if line.startswith('"PROG '):
            progs.append(json.loads(json.loads(line)[5:]))
        elif line.startswith('"READS '):
            reads = json.loads(json.loads(line)[6:])
    sf = os.path.join(wd, "store.tsv")
    with open(sf, "w") as f:
        f.write("R\t" + "\t".join(reads) + "\n")
        for pr in progs:
            f.write("P\t" + "\t".join(a["loc"] + "\t" + a["val"] for a in pr["asg"]) + "\n")
    (rc, o), = run_parallel([[os.path.join(BIN, "fn_replay"), "store", sf]], timeout=2400)
    if "DONE" not in o:
        print(o[-1500:])
        print("HARNESS FAILURE: fn_replay store")
        sys.exit(2)
    sres = {}
    stop_at = len(progs)
    for line in o.splitlines():
        f = line.split()
        if f and f[0] == "STOP":
            stop_at = int(f[1])
        elif f and f[0] == "S" and len(f) >= 4:
            sres[int(f[1])] = (f[2].split(","), f[3].split(","))
        elif f and f[0] == "C":
            sres[int(f[1])] = (["CRASH" + f[2]], [])
    store_diffs = []
    for i, pr in enumerate(progs[:stop_at]):
        r = sres.get(i, (["MISSING"], []))
        eo = ["ok" if x else "ERR" for x in pr["oks"]]
        if r[0] != eo or r[1] != [str(v) for v in pr["reads"]]:
            store_diffs.append({"program": pr["asg"], "expected_outcomes": eo, "got_outcomes": r[0],
                                "reads": reads, "expected_values": pr["reads"], "got_values": r[1]})
    known = [k for k in load_known() if k["property"] == "C17"]
    hits = collections.OrderedDict()
    unexplained = []
    for dct in diffs:
        sig = signature(dct)
        k = next((k for k in known if k["signature"] == sig), None)
        if k:
            hits.setdefault(k["id"], [k, 0])[1] += 1
        else:
            dct["signature"] = sig
            unexplained.append(dct)
    paths = []
    if unexplained:
        rp = os.path.join(rd, "C17-promela.json")
        with open(rp, "w") as f:
            json.dump({"property": "C17", "kind": "promela", "vectors": unexplained[:300]}, f, indent=1)
        paths.append(rp)
    if store_diffs:
        rp = os.path.join(rd, "C17-store.json")
        with open(rp, "w") as f:
            json.dump({"property": "C17", "kind": "promela-store", "programs": store_diffs[:300]}, f, indent=1)
        paths.append(rp)
    for i in range(nsh):
        os.remove(os.path.join(wd, "v%02d.tsv" % i))
    cov = {"evaluations": len(items) * 2, "distinct_nontrivial": len(vecs),
           "rule": "TLC enumerates every expression AST of depth <= 1 over leaves {0,1,2,7,a,b,arr[0],arr[1],arr[5] (out of range)} "
                   "and 15 binary + 2 unary operators, and %s of the depth-2 family op(d1,leaf) / op(leaf,d1) / unary(d1); each is rendered with minimal and "
                   "with full parentheses and evaluated by evalAsData and evalAsBool; expected = PromelaExpr!Eval; distinct_nontrivial = distinct ASTs"
                   % ("a 1/16 slice (chosen by VERIF_SEED)" if tier == "quick" else "all"),
           "samples": [{"text": v["min"], "full": v["full"], "expected": v["v"]} for v in vecs[:: max(1, len(vecs) // 6)][:6]],
           "exhaustive": tier != "quick", "tlc_states": states,
           "disagreements": len(diffs), "unexplained": len(unexplained),
           "store_programs": stop_at, "store_programs_not_run_after_12_crashes": len(progs) - stop_at, "store_disagreements": len(store_diffs),
           "store_rule": "all programs of 1-2 assignments over 12 locations (scalars, array elements incl. computed, negative and too large indices; one scalar and one array declared without initial value) x 7 expressions (incl. one that reads an earlier write and one that faults); after each program all 9 locations are read back; expected = PromelaExpr!Eval over the store MC_PromelaStore!Run yields",
           "disagreement_signatures": dict(collections.Counter(signature(d) for d in diffs))}
    write_evidence(pid, tier, "exploration", cov, time.time() - t0, len(unexplained) + len(store_diffs),
                   ["shifts are generated only for operands 0..255 << 0..8 (defined behaviour)",
                    "true/false returned for a comparison at top level are read as 1/0",
                    "left-to-right evaluation of arithmetic operands is only observable when both operands fault differently; not covered"])
    finish(pid, paths, ["%s (%d vectors)" % (h[0]["what"], h[1]) for h in hits.values()])
