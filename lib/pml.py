"""Promela campaign (C06): charts (promela datamodel) -> ChartToPromela (xform) -> spin simulation of the
emitted model with the event word injected into the external queue -> one trace line per run -> TLC."""
import fcntl, json, os, random, re, shutil, time
from vlib import *
import campaign
import chart as chartmod
import families, directed


def has_fault(c):
    return '"fault"' in json.dumps(c.to_value()) or '"berr"' in json.dumps(c.to_value()) or '"ierr"' in json.dumps(c.to_value())


def build_pml_campaign(tier, sd):
    rnd = random.Random(sd * 41 + 6)
    cp = campaign.Campaign("pml", tier)
    for c in directed.charts():
        if has_fault(c) or c.binding == "late" or c.max_delay() > 0 or c.arrays:
            continue
        cid = cp.add_chart(c)
        c.tags.append("D:" + c.name)
        ws = [w for w in families.words(c, 2) if "u" not in w]
        for w in directed.WORDS.get(c.name, []):
            ws.append(w)
        cp.add_cases(cid, ["promela"], ws, modes=("preload",))

    def add_E(n, m, frac, maxlen):
        for desc in families.enum_E(n, m):
            if frac < 1.0 and rnd.random() >= frac:
                continue
            c = families.build_E(desc)
            cid = cp.add_chart(c)
            c.tags.append("E(%d,%d)" % (n, m))
            cp.add_cases(cid, ["promela"], [w for w in families.words(c, maxlen) if "u" not in w], modes=("preload",))
    if tier == "quick":
        add_E(1, 1, 1.0, 2)
        add_E(2, 1, 1.0, 2)
        add_E(3, 1, 0.12, 2)
        nrand = 80
    else:
        add_E(1, 1, 1.0, 3)
        add_E(2, 1, 1.0, 3)
        add_E(3, 1, 1.0, 2)
        add_E(2, 2, 0.2, 2)
        nrand = 1500
    campaign.add_PH(cp, tier, rnd, ["promela"], modes=("preload",), pfrac=0.5 if tier == "quick" else None)
    rc = families.RandomCharts(sd * 611 + 9)
    n = 0
    while n < nrand:
        c = rc.chart()
        if has_fault(c) or c.binding == "late" or c.arrays:
            continue
        n += 1
        cid = cp.add_chart(c)
        al = [a for a in families.alphabet(c) if a != "u"]
        ws = [[rnd.choice(al) for _ in range(rnd.randint(0, 5))] for _ in range(3)] if al else [[]]
        cp.add_cases(cid, ["promela"], ws, modes=("preload",))
    return cp


LOGRE = re.compile(r"([A-Za-z_][A-Za-z0-9_]*): (-?\d+)")


def labels_of(v):
    """all <log> labels of a chart value"""
    out = set()

    def walk(x):
        if isinstance(x, dict):
            if x.get("op") == "log":
                out.add(x["label"])
            for y in x.values():
                walk(y)
        elif isinstance(x, list):
            for y in x:
                walk(y)
    walk(v)
    return out


def parse_spin(out, defs_states, defs_events, labels):
    """spin -T output of the emitted model -> (atoms, final config ids, finished)"""
    atoms = []
    cfg = None
    pending_deq = None
    finished = False
    for line in out.splitlines():
        # <log> output has no newline: it precedes whatever is printed next on the same line
        rest = line
        if rest.startswith("depth-limit") or rest[:1] in ("\t", " ", "#") or rest[:1].isdigit():
            continue      # spin's own messages and its final dump of variables
        while True:
            mm = LOGRE.match(rest)
            if not mm or mm.group(1) not in labels:
                break
            atoms.append({"a": "log", "x": [mm.group(1)], "v": int(mm.group(2))})
            rest = rest[mm.end():]
        if rest.startswith("Deqeued an internal event"):
            pending_deq = 0
        elif rest.startswith("Deqeued an external event"):
            pending_deq = 1
        elif rest.startswith("Establishing optimal transition set for event"):
            ev = int(rest.split()[-1])
            if pending_deq is not None and ev != 0:
                atoms.append({"a": "deq", "x": defs_events.get(ev, ["?%d" % ev]), "v": pending_deq})
            pending_deq = None
        elif rest.startswith("Exiting state "):
            atoms.append({"a": "exit", "x": [defs_states.get(int(rest.split()[-1]), "?")], "v": 0})
        elif rest.startswith("Entering state "):
            atoms.append({"a": "enter", "x": [defs_states.get(int(rest.split()[-1]), "?")], "v": 0})
        elif rest.startswith("Configuration: "):
            bits = rest.split(": ")[1].strip()
            cfg = [defs_states.get(i, "?") for i, b in enumerate(bits) if b == "1"]
        elif rest.startswith("Machine finished"):
            finished = True
    return atoms, cfg, finished


def run_pml(cp, workdir):
    t0 = time.time()
    os.makedirs(workdir, exist_ok=True)
    for i, cs in enumerate(cp.cases):
        cs["id"] = i + 1
    charts_file = os.path.join(workdir, "charts.ndjson")
    campaign.write_charts(cp, charts_file)
    gen = os.path.join(workdir, "gen")
    os.makedirs(gen, exist_ok=True)
    nsh = NCPU
    cmds = []
    for i in range(nsh):
        bp = os.path.join(gen, "xf%02d.batch" % i)
        with open(bp, "wb") as f:
            for c in cp.charts:
                if c.cid % nsh == i:
                    y = c.render("promela").encode()
                    f.write(("DOC m%d pml %d\n" % (c.cid, len(y))).encode() + y + b"\n")
        cmds.append([os.path.join(BIN, "xform"), bp, gen])
    res = run_parallel(cmds)
    xfail = {}
    for rc, out in res:
        for line in out.splitlines():
            if line.startswith("FAIL "):
                xfail[int(line.split()[1][1:])] = line
    t1 = time.time()
    # per chart: definitions (state index -> id, event number -> name tokens)
    defs = {}
    for c in cp.charts:
        p = os.path.join(gen, "m%d.pml" % c.cid)
        if c.cid in xfail or not os.path.exists(p):
            continue
        st, ev = {0: "s1"}, {}
        text = open(p).read()
        for mm in re.finditer(r"#define ROOT_(\w+) (\d+) /\* index for state (\S+) \*/", text):
            st[int(mm.group(2))] = mm.group(3)
        for mm in re.finditer(r"#define (\w+) (\d+) /\* ([^ ]+) \*/", text):
            if not mm.group(1).startswith("ROOT"):
                ev[int(mm.group(2))] = mm.group(3).split(".")
        defs[c.cid] = (st, ev, text)
    labels = {c.cid: labels_of(c.to_value()) for c in cp.charts}
    # run: one python worker per shard (spin per case)
    shards = [[] for _ in range(nsh)]
    for cs in cp.cases:
        shards[cs["chart"] % nsh].append(cs)
    import multiprocessing

    def work(si):
        tr = os.path.join(workdir, "s%02d.pml.ndjson" % si)
        with open(tr, "w") as f:
            for cs in shards[si]:
                hdr = {"k": "reset", "case": cs["id"], "chart": cs["chart"], "exec": "pml", "dm": "promela", "mode": "preload",
                       "word": [w.split(".") for w in cs["word"]]}
                f.write(chartmod.dumps(hdr) + "\n")
                if cs["chart"] not in defs:
                    f.write('{"k":"end","steps":-1,"dm":[],"last":"?","limit":false,"exit":"transform-failed"}\n')
                    continue
                st, ev, text = defs[cs["chart"]]
                names = {".".join(v): k for k, v in ev.items()}
                inv = {}
                for mm in re.finditer(r"#define (\w+) (\d+) /\* ([^ ]+) \*/", text):
                    inv[mm.group(3)] = mm.group(1)
                if any(w not in inv for w in cs["word"]):
                    f.write('{"k":"end","steps":-1,"dm":[],"last":"?","limit":false,"exit":"ok"}\n')
                    continue
                inject = "".join("  ROOT_eQ!%s;\n" % inv[w] for w in cs["word"])
                model = "\n".join(l for l in text.splitlines() if not l.startswith("ltl w3c"))
                model = model.replace("  run ROOT_step() priority 10;", inject + "  run ROOT_step() priority 10;")
                sd = os.path.join(gen, "sh%02d" % si)
                os.makedirs(sd, exist_ok=True)
                mp = os.path.join(sd, "run.pml")
                with open(mp, "w") as mf:
                    mf.write(model)
                r = subprocess.run(["timeout", "20", "spin", "-T", "-u20000", mp], stdout=subprocess.PIPE, stderr=subprocess.STDOUT, text=True, cwd=sd)
                for w in cs["word"]:
                    f.write(chartmod.dumps({"k": "call", "op": "receive", "arg": w.split("."), "ret": "-", "atoms": [], "cfg": []}) + "\n")
                atoms, cfg, fin = parse_spin(r.stdout, st, ev, labels[cs["chart"]])
                # cut-off runs: spin's step bound, or one of the model's bounded queues is full (their lengths are
                # the transpiler's heuristic; a blocking send inside d_step stops the simulation)
                limit = "depth-limit" in r.stdout or "stmnt in d_step blocks" in r.stdout
                ex = "ok" if (r.returncode == 0 or limit) and "yntax error" not in r.stdout and "aborting" not in r.stdout else \
                    ("spin rc=%d %s" % (r.returncode, " ".join(l for l in r.stdout.splitlines() if "rror" in l)[:200].replace('"', "'")))
                f.write(chartmod.dumps({"k": "call", "op": "step", "arg": [], "ret": "FINISHED" if fin else ("LIMIT" if limit else "IDLE"), "atoms": atoms,
                                        "cfg": cfg if cfg is not None else []}) + "\n")
                f.write(chartmod.dumps({"k": "end", "steps": 1, "dm": [], "last": "?", "limit": False, "exit": ex}) + "\n")
        return si
    import subprocess
    procs = []
    for si in range(nsh):
        pid = os.fork()
        if pid == 0:
            try:
                work(si)
            finally:
                os._exit(0)
        procs.append(pid)
    for pid in procs:
        os.waitpid(pid, 0)
    t2 = time.time()
    cfgp = os.path.join(workdir, "Trace_Step.cfg")
    write_cfg(cfgp, ["SPECIFICATION TraceSpec", "CONSTANT Variants = {}", "CHECK_DEADLOCK FALSE", "POSTCONDITION Consumed"])
    jobs = []
    for si in range(nsh):
        tr = os.path.join(workdir, "s%02d.pml.ndjson" % si)
        if os.path.getsize(tr) == 0:
            continue
        cmd = tlc_cmd("Trace_Step.tla", cfgp, os.path.join(workdir, "meta.s%02d" % si))
        cmd[cmd.index("-config") + 1] = cfgp
        jobs.append((si, cmd, {"CHARTS": charts_file, "TRACE": tr}))
    outs = run_parallel([j[1] for j in jobs], env=[j[2] for j in jobs], timeout=3000)
    verdicts, failures = [], []
    states = 0
    for j, (rc, out) in zip(jobs, outs):
        p = parse_tlc(out)
        states += p["distinct"]
        if not p["ok"] or p["error"]:
            failures.append({"shard": j[0], "rc": rc, "tail": out[-1500:]})
        verdicts.extend(p["verdicts"])
        shutil.rmtree(os.path.join(workdir, "meta.s%02d" % j[0]), ignore_errors=True)
    t3 = time.time()
    shutil.rmtree(gen, ignore_errors=True)
    result = {"cases": len(cp.cases), "charts": len(cp.charts), "programs": len(defs), "transform_failed": {str(k): v for k, v in xfail.items()},
              "tlc_states": states, "verdicts": verdicts, "failures": failures,
              "t_transform": round(t1 - t0, 1), "t_run": round(t2 - t1, 1), "t_judge": round(t3 - t2, 1)}
    if not failures:
        with open(os.path.join(workdir, "result.json"), "w") as f:
            json.dump(result, f)
    return result


def cached_pml(tier):
    ensure_build()
    h = file_hash([os.path.join(HOOKS, "lib", "libuscxml_transform.so.2.0.0"), os.path.join(HOOKS, "lib", "libuscxml.so.2.0.0"),
                   os.path.join(ROOT, "gen"), os.path.join(ROOT, "spec"), os.path.join(ROOT, "harness", "xform.cpp"),
                   os.path.join(ROOT, "lib", "pml.py"), os.path.join(ROOT, "lib", "campaign.py")])
    key = "pml-%s-%d-%s" % (tier, seed(), h)
    base = os.path.join(OUT, "cache")
    os.makedirs(base, exist_ok=True)
    workdir = os.path.join(base, key)
    lock = open(os.path.join(base, key + ".lock"), "w")
    fcntl.flock(lock, fcntl.LOCK_EX)
    try:
        rp = os.path.join(workdir, "result.json")
        if os.path.exists(rp):
            with open(rp) as f:
                r = json.load(f)
        else:
            for d in os.listdir(base):
                if d.startswith("pml-%s-" % tier) and d != key and not d.endswith(".lock"):
                    shutil.rmtree(os.path.join(base, d), ignore_errors=True)
            r = run_pml(build_pml_campaign(tier, seed()), workdir)
        r["workdir"] = workdir
        return r
    finally:
        fcntl.flock(lock, fcntl.LOCK_UN)
        lock.close()
