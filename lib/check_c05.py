"""C05: the structural tables embedded by the transpiler back-ends (annotated document of the C, Promela and
VHDL transformation; initialisers of the emitted C; init block of the emitted Promela) against the relations
the Recommendation defines for the document (spec/Tables.tla, evaluated by TLC)."""
import collections, json, os, time
from vlib import *
import tables, findings


def run(pid, tier):
    t0 = time.time()
    rd = os.path.join(OUT, "replay")
    os.makedirs(rd, exist_ok=True)
    for fn in os.listdir(rd):
        if fn.startswith(pid + "-"):
            os.remove(os.path.join(rd, fn))
    r = tables.cached_tables(tier)
    if r["failures"]:
        print(json.dumps(r["failures"][0])[-3000:])
        print("MODEL/HARNESS FAILURE: table checking")
        sys.exit(2)
    known = [k for k in load_known() if k["property"] == pid]
    with open(os.path.join(r["workdir"], "charts.ndjson")) as f:
        charts = [json.loads(l) for l in f]
    viol, hits = [], collections.OrderedDict()
    for v in r["verdicts"]:
        k = findings.match(known, v, charts[v["chart"] - 1], {})
        if k:
            hits.setdefault(k["id"], [k, 0])[1] += 1
        else:
            viol.append(v)
    paths, seen = [], set()
    for v in viol:
        if v["chart"] in seen or len(paths) >= 10:
            continue
        seen.add(v["chart"])
        p = os.path.join(rd, "%s-chart%d.json" % (pid, v["chart"]))
        with open(p, "w") as f:
            json.dump({"property": pid, "kind": "tables", "chart": charts[v["chart"] - 1], "verdict": v,
                       "all_verdicts_of_chart": [x for x in viol if x["chart"] == v["chart"]][:30]}, f)
        paths.append(p)
    with open(os.path.join(r["workdir"], "s00.obs.ndjson")) as f:
        sample = json.loads(next(f))
    cov = {"evaluations": r["observations"] * 1 + (r["states"] * 4 + r["transitions"] * 5) * 5,
           "distinct_nontrivial": r["charts"],
           "rule": "every table entry (4 per state: parent, children, ancestors, completion; 5 per transition: post-fix position, source, targets, exit set, conflicts) of every observation (document x {C, Promela, VHDL} annotated document, + emitted C initialisers, + emitted Promela init block) is compared by TLC with the relation Tables.tla defines; distinct_nontrivial counts documents",
           "samples": [{"chart": sample["chart"], "backend": sample["backend"], "place": sample["place"], "states": sample["states"][:3], "trans": sample["trans"][:2]}],
           "programs": r["charts"], "observations": r["observations"], "states": r["states"], "transitions": r["transitions"],
           "timing": {k: r[k] for k in ("t_transform", "t_judge")}, "unexplained_total": len(viol),
           "explanation": "programs = documents; observations = (document, back-end, place) table sets compared by TLC: the annotated document of each of the three transformations plus the tables parsed from the emitted C initialisers and the emitted Promela init block"}
    write_evidence(pid, tier, "exploration", cov, time.time() - t0, len(viol),
                   ["uSCXML's indices are translated to the chart's own by state id (pseudo states: by parent) and, for transitions, by source element and position",
                    "the VHDL text embeds the tables only inside its equations, which C18 checks; here its annotated document is compared",
                    "exit sets and conflicts are compared for ordinary transitions only (those of <initial> and <history> elements are never selected)",
                    "history completion is compared with the partition uSCXML's history mask relies on (every recorded state belongs to exactly one history element); <initial> elements in it are ignored"])
    finish(pid, paths, ["%s (%d table entries in this run)" % (h[0]["what"], h[1]) for h in hits.values()])
