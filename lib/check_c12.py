"""C12: event descriptors match exactly as the Recommendation prescribes.
TLC enumerates descriptor lists x names with the verdict of ScxmlChart!NameMatch
(spec/MC_NameMatch.tla); the table is replayed through uscxml::nameMatch and the
copy of the matcher shipped in test/src/test-gen-c.cpp (harness/fn_replay)."""
import collections, json, os, random, re, shutil, time
from vlib import *


def render_desc(d):
    return ".".join(d)


def variants(dl, rnd, all_variants):
    parts = [render_desc(d) for d in dl]
    out = [" ".join(parts)]
    if all_variants:
        out.append("  ".join(parts))
        out.append(" " + " ".join(parts))
        out.append(" ".join(parts) + " ")
    return out


def signature(diff):
    """classify a disagreement for the known-findings file"""
    impl, desc, name, exp, got = diff
    if impl == "vhdl-signal":
        return "signal-collision"
    toks = desc.split()
    if exp == 1 and got == 0:
        # which descriptor should have matched?
        if len(toks) > 1:
            return "list-miss"
        return "single-miss"
    return "false-match"


def static_resolution(vecs, names, wd, tier, rnd):
    """the matches ChartToPromela resolves statically (event trie): one document per descriptor list -- transition 0
    carries the list, transition 1 mentions every name of the domain so that all of them are events of the document --
    and the set of event macros in the emitted guard of transition 0 must be exactly the names NameMatch accepts"""
    nameset = set(".".join(n) for n in names)

    def stripped(d):
        d2 = list(d)
        if d2 and d2[-1] == "*":
            d2 = d2[:-1]
        if d2 and d2[-1] == "":
            d2 = d2[:-1]
        return ".".join(d2)
    cand = [v for v in vecs if all(stripped(d) == "" or stripped(d) in nameset for d in v["d"])]
    if tier == "quick" and len(cand) > 500:
        cand = rnd.sample(cand, 500)
    gen = os.path.join(wd, "pml")
    shutil.rmtree(gen, ignore_errors=True)
    os.makedirs(gen)
    allnames = " ".join(sorted(nameset))
    nsh = NCPU
    batches = [open(os.path.join(gen, "b%02d.batch" % i), "wb") for i in range(nsh)]
    for k, v in enumerate(cand):
        text = " ".join(render_desc(d) for d in v["d"])
        doc = ('<scxml xmlns="http://www.w3.org/2005/07/scxml" version="1.0" datamodel="promela" name="m">'
               '<state id="s0"><transition event="%s" target="s1"/><transition event="%s" target="s1"/></state>'
               '<state id="s1"/></scxml>' % (text, allnames)).encode()
        batches[k % nsh].write(("DOC n%d pml %d\n" % (k, len(doc))).encode() + doc + b"\n")
    for b in batches:
        b.close()
    res = run_parallel([[os.path.join(BIN, "xform"), os.path.join(gen, "b%02d.batch" % i), gen] for i in range(nsh)])
    diffs = []
    for k, v in enumerate(cand):
        p_ = os.path.join(gen, "n%d.pml" % k)
        text = " ".join(render_desc(d) for d in v["d"])
        if not os.path.exists(p_):
            diffs.append(("promela-static", text, "*", 0, -1))
            continue
        src = open(p_, errors="replace").read()
        macro = {}
        for mm in re.finditer(r"#define (\w+) (\d+) /\* ([^ ]+) \*/", src):
            if not mm.group(1).startswith("ROOT"):
                macro[mm.group(1)] = mm.group(3)
        mm = re.search(r"\|\| \(i == 0(.*?)\)\s*\n", src)
        guard = mm.group(1) if mm else None
        if guard is None:
            diffs.append(("promela-static", text, "*", 0, -1))
            continue
        if "&& (false" not in guard:
            got = set(nameset)            # no event clause at all: the lone wildcard
        else:
            got = set(macro.get(x, "?" + x) for x in re.findall(r"== (\w+)", guard)) & nameset
        exp = set(".".join(names[i - 1]) for i in v["m"])
        for nm in sorted(got ^ exp):
            diffs.append(("promela-static", text, nm, 1 if nm in exp else 0, 1 if nm in got else 0))
    # --- the same for the event signals in the emitted VHDL equation of transition 0
    import vhdl as vhdlmod
    vcand = cand if tier != "quick" else cand[:200]
    batches = [open(os.path.join(gen, "v%02d.batch" % i), "wb") for i in range(nsh)]
    for k, v in enumerate(vcand):
        text = " ".join(render_desc(d) for d in v["d"])
        doc = ('<scxml xmlns="http://www.w3.org/2005/07/scxml" version="1.0" datamodel="null" name="m">'
               '<state id="s0"><transition event="%s" target="s1"/><transition event="%s" target="s1"/></state>'
               '<state id="s1"/></scxml>' % (text, allnames)).encode()
        batches[k % nsh].write(("DOC w%d vhdl %d\n" % (k, len(doc))).encode() + doc + b"\n")
    for b in batches:
        b.close()
    run_parallel([[os.path.join(BIN, "xform"), os.path.join(gen, "v%02d.batch" % i), gen] for i in range(nsh)])
    for k, v in enumerate(vcand):
        p_ = os.path.join(gen, "w%d.vhdl" % k)
        text = " ".join(render_desc(d) for d in v["d"])
        if not os.path.exists(p_):
            diffs.append(("vhdl-static", text, "*", 0, -1))
            continue
        src = open(p_, errors="replace").read()
        q = vhdlmod.extract(src, [])
        eq = next((e["e"] for e in q["eqs"] if e["n"] == "in_optimal_transition_set_0_sig"), None)
        if eq is None:
            diffs.append(("vhdl-static", text, "*", 0, -1))
            continue
        sigs = set()
        vhdlmod.signals_of(eq, sigs)
        sigs = set(x for x in sigs if x.startswith("event_"))
        # signal of a name: event_<alnum>_sig, or event_<alnum>_<h>_sig with h depending on the dropped characters only
        suffixes = sorted(set(re.findall(r"signal event_\w+?_(\d+)_sig", src)))
        best = None
        import itertools as it
        for assign in it.product(suffixes or [""], repeat=2):
            h = {1: assign[0], 2: assign[1]}
            m = {}
            for nm in nameset:
                al = nm.replace(".", "")
                dots = nm.count(".")
                m[nm] = "event_%s_sig" % al if dots == 0 else "event_%s_%s_sig" % (al, h[dots])
            if all(("signal %s " % sg) in src for sg in m.values()):
                best = m
                break
        if best is None:
            diffs.append(("vhdl-static", text, "?signals", 0, -1))
            continue
        # escapeMacro maps some different names to one signal (a.b.ab / ab.a.b): only names with a signal of their own are judged
        cnt = collections.Counter(best.values())
        if k == 0:
            # reported once per run: different event names that share one signal cannot be told apart by the circuit
            for sg, c_ in sorted(cnt.items()):
                if c_ > 1:
                    diffs.append(("vhdl-signal", sg, "=".join(sorted(nm for nm, s2 in best.items() if s2 == sg)), 0, 1))
        inv = {sg: nm for nm, sg in best.items() if cnt[sg] == 1}
        judged = set(inv.values())
        got = set(inv[x] for x in sigs if x in inv)
        exp = set(".".join(names[i - 1]) for i in v["m"]) & judged
        for nm in sorted(got ^ exp):
            diffs.append(("vhdl-static", text, nm, 1 if nm in exp else 0, 1 if nm in got else 0))
    shutil.rmtree(gen, ignore_errors=True)
    return diffs, len(cand)


def run(pid, tier):
    t0 = time.time()
    ensure_build()
    wd = os.path.join(OUT, "c12")
    os.makedirs(wd, exist_ok=True)
    rnd = random.Random(seed())
    maxdesc = 2 if tier == "quick" else 3
    # random longer lists beyond the bound
    toks = ["a", "b", "ab", "abc", "c"]
    extra = os.path.join(wd, "extra.ndjson")
    with open(extra, "w") as f:
        for _ in range(300 if tier == "quick" else 3000):
            dl = []
            for _ in range(rnd.randint(3, 6)):
                d = [rnd.choice(toks) for _ in range(rnd.randint(1, 5))]
                x = rnd.random()
                if x < 0.2:
                    d.append("*")
                elif x < 0.3:
                    d.append("")
                elif x < 0.35:
                    d = ["*"]
                dl.append(d)
            f.write(json.dumps({"d": dl}) + "\n")
    md = os.path.join(wd, "meta")
    cmd = tlc_cmd("MC_NameMatch.tla", "MC_NameMatch.cfg", md, xmx="6g")
    (rc, out), = run_parallel([cmd], env={"MAXDESC": str(maxdesc), "MAXTOK": "2", "MAXNAME": "3", "EXTRA": extra})
    p = parse_tlc(out)
    names = None
    vecs = []
    for line in out.splitlines():
        if line.startswith('"NAMES '):
            names = json.loads(json.loads(line)[6:])
        elif line.startswith('"VEC '):
            vecs.append(json.loads(json.loads(line)[4:]))
    if not p["ok"] or names is None or not vecs:
        print(out[-3000:])
        print("MODEL FAILURE: TLC did not produce the NameMatch table")
        sys.exit(2)
    # render and shard
    nsh = NCPU
    files = [open(os.path.join(wd, "vec%02d.tsv" % i), "w") for i in range(nsh)]
    nvec = 0
    nlists = 0
    samples = []
    for vi, v in enumerate(vecs):
        matching = set(v["m"])
        allv = (tier != "quick") or (vi % 10 == 0)
        for text in variants(v["d"], rnd, allv):
            nlists += 1
            f = files[nlists % nsh]
            for ni, nm in enumerate(names):
                f.write("%s\t%s\t%d\n" % (text, ".".join(nm), 1 if (ni + 1) in matching else 0))
                nvec += 1
        if vi % 4001 == 7:
            samples.append({"descriptors": v["d"], "text": " ".join(render_desc(d) for d in v["d"]),
                            "matching_names": [".".join(names[i - 1]) for i in v["m"]][:8]})
    for f in files:
        f.close()
    res = run_parallel([[os.path.join(BIN, "fn_replay"), "namematch", os.path.join(wd, "vec%02d.tsv" % i)] for i in range(nsh)])
    diffs = []
    done = 0
    for rc, o in res:
        for line in o.splitlines():
            if line.startswith("DIFF "):
                impl, desc, name, e, g = line[5:].split("\t")
                diffs.append((impl, desc, name, int(e.split("=")[1]), int(g.split("=")[1])))
            elif line.startswith("DONE "):
                done += int(line.split()[1])
        if rc != 0:
            print(o[-2000:])
            print("HARNESS FAILURE")
            sys.exit(2)
    if done != nvec:
        print("HARNESS FAILURE: %d of %d vectors replayed" % (done, nvec))
        sys.exit(2)
    sdiffs, nstatic = static_resolution(vecs, names, wd, tier, rnd)
    diffs.extend(sdiffs)
    # known findings
    known = [k for k in load_known() if k["property"] == "C12"]
    known_hit = {}
    unexplained = []
    for d in diffs:
        sig = signature(d)
        hit = None
        for k in known:
            if k["signature"] == sig and (k.get("impl") in (None, d[0])):
                hit = k
                break
        if hit:
            known_hit.setdefault(hit["id"], [hit, 0])[1] += 1
        else:
            unexplained.append(d)
    viol_paths = []
    if unexplained:
        os.makedirs(os.path.join(OUT, "replay"), exist_ok=True)
        rp = os.path.join(OUT, "replay", "C12-namematch.json")
        with open(rp, "w") as f:
            json.dump({"property": "C12", "kind": "namematch",
                       "vectors": [{"impl": d[0], "descriptors": d[1], "name": d[2], "expected": d[3], "got": d[4]}
                                   for d in unexplained[:200]]}, f, indent=1)
        viol_paths.append(rp)
    for fpath in [os.path.join(wd, "vec%02d.tsv" % i) for i in range(nsh)]:
        os.remove(fpath)
    cov = {"evaluations": nvec, "distinct_nontrivial": len(vecs),
           "rule": "TLC enumerates every descriptor list with <= %d descriptors of <= 2 name tokens over {a,b,ab} "
                   "(+ optional trailing .* or ., + lone *), plus %d seeded random lists of 3-6 descriptors; each is "
                   "paired with all %d event names of <= 3 tokens; expected = ScxmlChart!NameMatch; a case is one "
                   "distinct descriptor list (distinct_nontrivial counts lists, evaluations counts list x name x text variant x "
                   "2 implementations / 2)" % (maxdesc, 300 if tier == "quick" else 3000, len(names)),
           "samples": samples[:6], "exhaustive": True,
           "implementations": ["uscxml::nameMatch", "StateMachine::nameMatch in test/src/test-gen-c.cpp",
                               "static resolution in the emitted Promela guard (event trie), %d descriptor lists x %d names" % (nstatic, len(names))],
           "disagreements": len(diffs), "unexplained": len(unexplained),
           "tlc_states": p["distinct"]}
    write_evidence(pid, tier, "exploration", cov, time.time() - t0, len(unexplained),
                   ["descriptors outside the Recommendation's grammar (a*, *.a, empty tokens inside a name) are not generated",
                    "upper-case letters are not in the alphabet (the Recommendation is silent on case)"])
    finish(pid, viol_paths, ["%s (%d vectors)" % (h[0]["what"], h[1]) for h in known_hit.values()])
