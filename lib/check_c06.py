"""C06: the emitted Promela model behaves like the chart (i.e. like Appendix D): ChartToPromela (xform),
event word injected into the model's external queue, simulated by spin; the whole run (dequeued events,
exited / entered states, <log> values, final configuration when idle, finished or not) is compared by TLC
with the specification iterated to quiescence (StepUntilQuiescent)."""
import collections, json, os, time
from vlib import *
import campaign, pml, findings
from checks_interp import write_replay


def run(pid, tier):
    t0 = time.time()
    rd = os.path.join(OUT, "replay")
    os.makedirs(rd, exist_ok=True)
    for fn in os.listdir(rd):
        if fn.startswith(pid + "-"):
            os.remove(os.path.join(rd, fn))
    r = pml.cached_pml(tier)
    if r["failures"]:
        print(json.dumps(r["failures"][0])[-3000:])
        print("MODEL/HARNESS FAILURE: Promela trace validation")
        sys.exit(2)
    known = [k for k in load_known() if k["property"] == pid]
    with open(os.path.join(r["workdir"], "charts.ndjson")) as f:
        charts = [json.loads(l) for l in f]
    p = os.path.join(r["workdir"], "class.pml.json")
    if os.path.exists(p):
        d = json.load(open(p))
    else:
        un, amb, sta = campaign.classify_c01(r, "pml", prop="C06")
        d = {"un": un, "amb": amb, "sta": sta}
        json.dump(d, open(p, "w"))
    others = [v for v in r["verdicts"] if v["property"] in ("C06", "C02") and v["why"] not in ("atoms", "cfg", "data") and "after-verdict" not in v.get("extra", [])]
    viol, hits = [], collections.OrderedDict()
    for v, cls in [(v, "unexplained") for v in d["un"]] + [(v, "static") for v in d["sta"]] + [(v, "exit") for v in others]:
        k = findings.match(known, v, charts[v["chart"] - 1], {"class": cls})
        if k:
            hits.setdefault(k["id"], [k, 0])[1] += 1
        else:
            viol.append((r, v))
    paths = [write_replay(pid, r, v) for r, v in viol[:10]]
    with open(os.path.join(r["workdir"], "s00.pml.ndjson")) as f:
        samples = [json.loads(next(f)) for _ in range(3)]
    cov = {"programs": r["programs"], "disagreements_checked": r["cases"], "charts": r["charts"], "tlc_states": r["tlc_states"],
           "ambiguous_accepted": len(d["amb"]), "transform_failures": len(r["transform_failed"]),
           "timing": {k: r[k] for k in ("t_transform", "t_run", "t_judge")}, "samples": samples, "unexplained_total": len(viol),
           "explanation": "programs = Promela models emitted by ChartToPromela and accepted by spin; disagreements_checked = (model, event word) runs simulated by spin and compared by TLC with the specification"}
    write_evidence(pid, tier, "translation_validation", cov, time.time() - t0, len(viol),
                   ["spin simulation of the emitted model, one run per (chart, word): the step process is one atomic/d_step sequence, so for a fixed content of the external queue there is a single execution; interleavings with invoked machines or delayed sends are not explored",
                    "charts restricted to what ChartToPromela supports: promela datamodel, integer variables, no error-raising content, events known to the model",
                    "states exited when the machine finishes are visible only through their <onexit> logs; the configuration is compared when the run ends idle"])
    finish(pid, paths, ["%s (%d cases in this run)" % (h[0]["what"], h[1]) for h in hits.values()])
