"""C20: transformation and interpretation are deterministic functions of their input.
Transformation: every document x back-end is transpiled in several process environments
(separate processes, ASLR on/off, allocator perturbation, cache files warm/cold, TMPDIR);
TLC (spec/Determinism.tla) requires the digest to be a function of (document, back-end).
Interpretation: the same cases are recorded in two environments and compared by Lockstep."""
import collections, hashlib, json, os, platform, shutil, time
from vlib import *
import campaign, directed, families

NESTED = """<scxml xmlns="http://www.w3.org/2005/07/scxml" version="1.0" datamodel="%(dm)s" name="outer%(n)d">
  <state id="a">
    %(invokes)s
    <transition event="done.invoke" target="b"><log label="x" expr="'one string literal %(n)d'"/></transition>
    <transition event="ev1 ev2 ev3.sub" target="b"><raise event="internal.r1"/><send event="sent.e%(n)d"/></transition>
  </state>
  <state id="b">
    <onentry><log label="y" expr="'another literal'"/><raise event="r2"/><raise event="r3.x"/></onentry>
    <transition event="r2 r3 r4 r5" target="c"/>
  </state>
  <final id="c"/>
</scxml>
"""
CHILD = """<invoke type="scxml" id="inv%(i)d"><content><scxml xmlns="http://www.w3.org/2005/07/scxml" version="1.0" datamodel="%(dm)s" name="child%(i)d">
      <state id="c%(i)da"><onentry><log label="c" expr="'child literal %(i)d'"/><raise event="child.e%(i)d"/></onentry>
        <transition event="child.e%(i)d child.other" target="c%(i)df"/></state>
      <final id="c%(i)df"/></scxml></content></invoke>"""


def documents(tier, sd):
    docs = []
    for c in directed.charts():
        docs.append((c.name, c))
    rc = families.RandomCharts(sd * 13 + 1)
    for i in range(15 if tier == "quick" else 80):
        docs.append(("r%d" % i, rc.chart()))
    texts = []
    for name, c in docs:
        for be in ("c", "pml", "vhdl"):
            texts.append((name, be, c.render("promela" if be == "pml" else "lua")))
    for n in range(4):
        inv = "\n    ".join(CHILD % {"i": i, "dm": "promela"} for i in range(n))
        for be in ("c", "pml"):
            texts.append(("nested%d" % n, be, NESTED % {"n": n, "dm": "promela", "invokes": inv}))
    return texts


def run(pid, tier):
    t0 = time.time()
    ensure_build()
    wd = os.path.join(OUT, "c20")
    shutil.rmtree(wd, ignore_errors=True)
    os.makedirs(wd)
    rd = os.path.join(OUT, "replay")
    os.makedirs(rd, exist_ok=True)
    for fn in os.listdir(rd):
        if fn.startswith("C20-"):
            os.remove(os.path.join(rd, fn))
    texts = documents(tier, seed())
    batch = os.path.join(wd, "batch")
    with open(batch, "wb") as f:
        for name, be, x in texts:
            y = x.encode()
            f.write(("DOC %s %s %d\n" % (name, be, len(y))).encode() + y + b"\n")
    arch = platform.machine()
    tmp2 = os.path.join(wd, "tmp2")
    os.makedirs(tmp2)
    envs = [("plain-1", [], {}), ("plain-2", [], {}),
            ("no-aslr", ["setarch", arch, "-R"], {}),
            ("malloc-perturb", [], {"MALLOC_PERTURB_": "165"}),
            ("cache-cold-tmp2", [], {"VERIF_KEEP_CACHE": "1", "TMPDIR": tmp2}),
            ("cache-warm-tmp2", [], {"VERIF_KEEP_CACHE": "1", "TMPDIR": tmp2})]
    obs = []
    fails = collections.Counter()
    for ename, prefix, env in envs:            # sequentially: warm follows cold
        od = os.path.join(wd, "out." + ename)
        os.makedirs(od)
        (rc, out), = run_parallel([prefix + [os.path.join(BIN, "xform"), batch, od]], env=env, timeout=900)
        if rc != 0:
            print(out[-1500:])
            print("HARNESS FAILURE: xform in environment", ename)
            sys.exit(2)
        for line in out.splitlines():
            if line.startswith("FAIL "):
                fails[line.split()[1]] += 1
        for name, be, x in texts:
            fp = os.path.join(od, "%s.%s" % (name, be))
            if os.path.exists(fp):
                with open(fp, "rb") as f:
                    dg = hashlib.sha256(f.read()).hexdigest()[:16]
                obs.append({"doc": name, "backend": be, "env": ename, "digest": dg})
    tr = os.path.join(wd, "obs.ndjson")
    with open(tr, "w") as f:
        for o in obs:
            f.write(json.dumps(o) + "\n")
    (rc, out), = run_parallel([tlc_cmd("Determinism.tla", "Determinism.cfg", os.path.join(wd, "meta"))], env={"TRACE": tr})
    p = parse_tlc(out)
    verdicts = p["verdicts"]
    if not p["ok"] and not verdicts:
        print(out[-2500:])
        print("MODEL FAILURE: Determinism")
        sys.exit(2)
    # interpretation: same cases in two environments, compared by Lockstep
    cp = campaign.Campaign("c20", tier)
    for c in directed.charts()[:12]:
        cid = cp.add_chart(c)
        cp.add_cases(cid, ["lua"], families.words(c, 2)[:8])
    for i, cs in enumerate(cp.cases):
        cs["id"] = i + 1
    b2 = os.path.join(wd, "interp.batch")
    campaign.write_batch(cp, cp.cases, "large", b2, {})
    ta, tb = os.path.join(wd, "ia.ndjson"), os.path.join(wd, "ib.ndjson")
    run_parallel([[os.path.join(BIN, "interp_trace"), b2, ta, "10"]], env={"VERIF_MAXSTEPS": "40"})
    run_parallel([["setarch", arch, "-R", os.path.join(BIN, "interp_trace"), b2, tb, "10"]],
                 env={"VERIF_MAXSTEPS": "40", "MALLOC_PERTURB_": "90", "VERIF_KEEP_CACHE": "1", "TMPDIR": tmp2})
    lock_verdicts = []
    for sfx in ("", ".raw"):
        (rc, out2), = run_parallel([tlc_cmd("Lockstep.tla", "Lockstep.cfg", os.path.join(wd, "metal"))],
                                   env={"TRACEA": ta + sfx, "TRACEB": tb + sfx, "PROP": "C20"})
        p2 = parse_tlc(out2)
        if '"LOCKSTEP-DONE"' not in out2:
            print(out2[-2000:])
            print("MODEL FAILURE: Lockstep (C20)")
            sys.exit(2)
        lock_verdicts += p2["verdicts"]
    # known findings
    known = [k for k in load_known() if k["property"] == "C20"]
    hits = collections.OrderedDict()
    viol = []
    for v in verdicts:
        k = next((k for k in known if k["signature"] == "backend:" + v["exec"]), None)
        if k:
            hits.setdefault(k["id"], [k, 0])[1] += 1
        else:
            viol.append(v)
    viol += lock_verdicts
    paths = []
    if viol:
        rp = os.path.join(rd, "C20-determinism.json")
        with open(rp, "w") as f:
            json.dump({"property": "C20", "kind": "determinism", "verdicts": viol[:100]}, f, indent=1)
        paths.append(rp)
    ndocs = len(set((o["doc"], o["backend"]) for o in obs))
    cov = {"evaluations": len(obs), "distinct_nontrivial": ndocs,
           "rule": "every (document, back-end) of %d documents x {c,pml,vhdl} (directed, random and hand-written documents with 0-3 inline invoked machines) is transpiled "
                   "in %d process environments (%s); a case is one (document, back-end); expected: one digest per case (Determinism!FunctionalDependence). "
                   "Interpretation: %d cases recorded in two environments, compared by Lockstep"
                   % (len(set(o["doc"] for o in obs)), len(envs), ", ".join(e[0] for e in envs), len(cp.cases)),
           "samples": obs[:3] + obs[-2:], "environments": [e[0] for e in envs],
           "transform_failures": dict(fails), "tlc_states": p["distinct"],
           "interp_cases_compared": len(cp.cases), "differences": len(verdicts) + len(lock_verdicts)}
    write_evidence(pid, tier, "exploration", cov, time.time() - t0, len(viol),
                   ["only non-determinism that one of the enumerated environments provokes can be seen",
                    "digest = sha256 of the emitted bytes"])
    finish(pid, paths, ["%s (%d documents)" % (h[0]["what"], h[1]) for h in hits.values()])
