#!/bin/bash
# Runs the repository's pinned baseline (guard OFF: /repo/_build is configured without
# -DUSCXML_VERIF) and compares with /root/.vp/BASELINE.json's stable_pass list.
set -o pipefail
cmake --build /repo/_build -- -j16 > /tmp/baseline.build.log 2>&1 || { tail -30 /tmp/baseline.build.log; echo "BASELINE BUILD FAILED"; exit 2; }
mkdir -p /verif/out
ctest --test-dir /repo/_build -j8 --timeout 900 --output-junit /verif/out/baseline.junit.xml > /verif/out/baseline.ctest.log 2>&1
python3 - <<'P'
import json, xml.etree.ElementTree as ET, sys
base = json.load(open('/root/.vp/BASELINE.json'))
want = set(x.split('::')[0] for x in base['stable_pass'])
t = ET.parse('/verif/out/baseline.junit.xml')
passed = set()
for tc in t.getroot().iter('testcase'):
    ok = tc.find('failure') is None and tc.find('error') is None and tc.find('skipped') is None and tc.get('status','run') in ('run','passed')
    if ok: passed.add(tc.get('name'))
missing = sorted(want - passed)
# timing-dependent IRP tests (delays) can miss under load: re-run the missing ones serially once
if missing:
    import subprocess, re
    still = []
    for m in missing:
        r = subprocess.run(["ctest", "--test-dir", "/repo/_build", "-R", "^" + re.escape(m) + "$", "--timeout", "120"],
                           stdout=subprocess.PIPE, stderr=subprocess.STDOUT, text=True)
        if "100% tests passed" not in r.stdout:
            still.append(m)
        else:
            passed.add(m)
    missing = still
print("baseline stable tests: %d, passing now: %d, missing: %d" % (len(want), len(want & passed), len(missing)))
for m in missing[:40]: print("  MISSING", m)
sys.exit(1 if missing else 0)
P
