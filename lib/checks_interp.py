"""C01, C02, C03, C13: decided on the shared interpreter campaign (lib/campaign.py)
plus model checking of the specification itself (spec/MC_Step.tla)."""
import collections
import fcntl
import json
import os
import shutil
import time

from vlib import *
import campaign
import chart as chartmod
import families
import findings


# ------------------------------------------------------------------ model checking of the spec
def cached_mc(tier):
    """MC_Step over the campaign's D and E charts: states / transitions / invariants"""
    key = "mc-%s-%d-%s" % (tier, seed(), file_hash([os.path.join(ROOT, "gen"), os.path.join(ROOT, "spec")]))
    base = os.path.join(OUT, "cache")
    os.makedirs(base, exist_ok=True)
    rp = os.path.join(base, key + ".json")
    lock = open(rp + ".lock", "w")
    fcntl.flock(lock, fcntl.LOCK_EX)
    try:
        if os.path.exists(rp):
            with open(rp) as f:
                return json.load(f)
        for fn in os.listdir(base):
            if fn.startswith("mc-%s-" % tier) and fn.endswith(".json") and fn != key + ".json":
                os.remove(os.path.join(base, fn))
        cp = campaign.build_interp_campaign(tier, seed())
        sel = [c for c in cp.charts if any(t.startswith("D:") or t.startswith("E(") for t in c.tags)]
        if tier == "quick":
            # every chart of D, E(1,*), E(2,*); every 4th of the larger families
            sel = [c for i, c in enumerate(sel)
                   if any(t.startswith("D:") or t.startswith("E(1") or t in ("E(2,0)", "E(2,1)") for t in c.tags) or i % 4 == 0]
        wd = os.path.join(base, key)
        os.makedirs(wd, exist_ok=True)
        cf = os.path.join(wd, "charts.ndjson")
        with open(cf, "w") as f:
            for c in sel:
                v = c.to_value()
                v["alphabet"] = [a.split(".") for a in families.alphabet(c)]
                f.write(chartmod.dumps(v) + "\n")
        t0 = time.time()
        res = {"charts": len(sel), "runs": []}
        # one run per variant set: the invariants must hold under every reading of the Recommendation
        for variants in (((),) if tier == "quick" else ((), ("A1prose", "A4doc"), ("static",))):
            cfgp = os.path.join(wd, "MC_%s.cfg" % ("_".join(variants) or "w3c"))
            write_cfg(cfgp, ["SPECIFICATION MCSpec",
                             "CONSTANT Variants = {%s}" % ",".join('"%s"' % v for v in variants),
                             "CONSTRAINT Bound", "VIEW View",
                             "INVARIANT TypeOK", "INVARIANT ConfigLegal", "INVARIANT RootEnteredOnce",
                             "INVARIANT HistorySound", "INVARIANT LifeCycleOK", "CHECK_DEADLOCK FALSE"])
            md = os.path.join(wd, "meta")
            cmd = tlc_cmd("MC_Step.tla", cfgp, md, workers=NCPU, xmx="12g")
            cmd[cmd.index("-config") + 1] = cfgp
            (rc, out), = run_parallel([cmd], env={"CHARTS": cf, "MAXWORD": "3" if tier == "quick" else "4",
                                                  "MAXSTEPS": "40"}, timeout=3000)
            p = parse_tlc(out)
            shutil.rmtree(md, ignore_errors=True)
            res["runs"].append({"variants": list(variants), "ok": p["ok"], "generated": p["states"],
                                "distinct": p["distinct"], "error": p["error"],
                                "tail": "" if p["ok"] else out[-3000:]})
        res["wall_s"] = round(time.time() - t0, 1)
        shutil.rmtree(wd, ignore_errors=True)
        with open(rp, "w") as f:
            json.dump(res, f)
        return res
    finally:
        fcntl.flock(lock, fcntl.LOCK_UN)
        lock.close()


# ------------------------------------------------------------------ replay files
def write_replay(pid, result, v, note=""):
    """a self-contained description of one failing case (DESIGN.md 4.3)"""
    os.makedirs(os.path.join(OUT, "replay"), exist_ok=True)
    wd = result["workdir"]
    chart_line = None
    with open(os.path.join(wd, "charts.ndjson")) as f:
        for i, line in enumerate(f):
            if i + 1 == v["chart"]:
                chart_line = json.loads(line)
                break
    header = None
    eng = v["exec"] if v["exec"] in ("large", "fast", "genc", "pml") else "large"
    for fn in sorted(os.listdir(wd)):
        if fn.startswith("s") and fn.endswith(".%s.ndjson" % eng):
            with open(os.path.join(wd, fn)) as f:
                for line in f:
                    if line.startswith('{"k":"reset"') and '"case":%d,' % v["case"] in line:
                        header = json.loads(line)
                        break
        if header:
            break
    rp = os.path.join(OUT, "replay", "%s-case%d-%s.json" % (pid, v["case"], v["exec"]))
    with open(rp, "w") as f:
        json.dump({"property": pid, "kind": eng if eng in ("genc", "pml") else "interp", "note": note, "case": header, "chart": chart_line,
                   "verdict": v}, f, indent=1)
    return rp


def sample_cases(result, n=4):
    out = []
    wd = result["workdir"]
    fns = sorted(fn for fn in os.listdir(wd) if fn.startswith("s") and fn.endswith(".large.ndjson"))
    for fn in fns[:: max(1, len(fns) // n)][:n]:
        with open(os.path.join(wd, fn)) as f:
            lines = []
            for line in f:
                lines.append(json.loads(line))
                if line.startswith('{"k":"end"'):
                    break
            out.append({"reset": lines[0], "calls": [{"op": c.get("op"), "ret": c.get("ret"),
                                                      "atoms": ["%s(%s)" % (a["a"], ".".join(a["x"])) for a in c.get("atoms", [])]}
                                                     for c in lines[1:6] if c["k"] == "call"]})
    return out


def classified(result, engine):
    p = os.path.join(result["workdir"], "class.%s.json" % engine)
    if os.path.exists(p):
        with open(p) as f:
            return json.load(f)
    un, amb, sta = campaign.classify_c01(result, engine)
    d = {"un": un, "amb": amb, "sta": sta}
    with open(p, "w") as f:
        json.dump(d, f)
    return d


def fail_model(what, detail):
    print(detail[-3000:])
    print("MODEL/HARNESS FAILURE (%s): the check itself is broken; no verdict" % what)
    sys.exit(2)


def run(pid, tier):
    t0 = time.time()
    # stale replay files of this property
    rd = os.path.join(OUT, "replay")
    if os.path.isdir(rd):
        for fn in os.listdir(rd):
            if fn.startswith(pid + "-"):
                os.remove(os.path.join(rd, fn))
    result = campaign.cached_campaign(tier)
    if result["failures"]:
        fail_model("trace validation", json.dumps(result["failures"][0]))
    mc = cached_mc(tier)
    for r in mc["runs"]:
        if not r["ok"]:
            # an invariant violated on the specification itself: the oracle is broken
            fail_model("MC_Step " + ",".join(r["variants"]), r["tail"])
    with open(os.path.join(result["workdir"], "charts.ndjson")) as f:
        charts = [json.loads(l) for l in f]

    known = [k for k in load_known() if k["property"] == pid]
    viol, hits = [], collections.OrderedDict()

    def consider(v, ctx):
        k = findings.match(known, v, charts[v["chart"] - 1] if v.get("chart") else None, ctx)
        if k:
            hits.setdefault(k["id"], [k, 0])[1] += 1
        else:
            viol.append(v)

    mc_states = sum(r["distinct"] for r in mc["runs"])
    mc_trans = sum(r["generated"] for r in mc["runs"])
    cov = {"states": mc_states + result["tlc_states"], "transitions": mc_trans + result["tlc_states"],
           "mc_step": {"charts": mc["charts"], "runs": [{k: r[k] for k in ("variants", "generated", "distinct")} for r in mc["runs"]],
                       "invariants": ["TypeOK", "ConfigLegal", "RootEnteredOnce", "HistorySound", "LifeCycleOK"],
                       },
           "spec_actions_matched_by_recorded_steps": result.get("spec_actions_matched", {}),
           "families": result["families"], "charts": result["charts"], "cases": result["cases"],
           "trace_lines": result["trace_lines"], "step_calls_validated": result["step_calls"],
           "samples": sample_cases(result)}
    assumptions = ["reference fragment only (DESIGN.md 3.2); ECMAScript datamodel not built in this sandbox",
                   "TLC (tla2tools 1.8.0) and the CommunityModules Json/IOUtils overrides are trusted",
                   "state identity by id attribute, transition identity by document order of the source text"]

    if pid == "C01":
        d = classified(result, "large")
        for v in d["un"]:
            consider(v, {"class": "unexplained"})
        for v in d["sta"]:
            consider(v, {"class": "static"})
        cov["traces_validated_against_impl"] = result["cases"]
        cov["accepted_under_ambiguity_variant"] = len(d["amb"])
        cov["explained_by_static_conflict_relation"] = len(d["sta"])
        cov["datamodels"] = ["lua", "promela", "null"]
        level = "model_checking"
    elif pid == "C02":
        for v in result["verdicts"]:
            if v["property"] == "C02":
                consider(v, {})
        cov["traces_validated_against_impl"] = result["traces"]
        cov["executors"] = result["engines"]
        level = "model_checking"
    elif pid == "C03":
        lock = [v for v in result["verdicts"] if v.get("judge") in ("lock", "lockraw")]
        seen = set()
        for v in lock:
            if v["case"] in seen:
                continue      # main and raw stream of the same case: one violation
            seen.add(v["case"])
            v["exec"] = "pair"
            v["chart"] = next((c["chart"] for c in []), v.get("chart", 0))
            consider(v, {})
        # "both accepted => equal": cases of the fast engine that the specification rejects are
        # reported under C03 only if the large engine's run of the same case was accepted
        cov["traces_validated_against_impl"] = result["traces"]
        cov["pairs_compared"] = result["cases"]
        level = "model_checking"
    elif pid == "C13":
        for v in result["verdicts"]:
            if v["property"] == "C13":
                consider(v, {})
        cov["traces_validated_against_impl"] = result["traces"]
        cov["callback_streams_checked"] = result["step_calls"]
        level = "model_checking"
        # invocation brackets (the charts of the campaign have no <invoke>): recordings of sessions whose invocation
        # cannot be started (harness/mt_invoke, scenario "bad"), judged by Trace_InvokeAll's bracket rule
        extra_paths = invoke_brackets(viol)
        cov["failing_invocations_checked"] = 8
    else:
        raise SystemExit("unknown property " + pid)

    # replay files
    paths = []
    campaign_viol = [v for v in viol if v.get("exec") != "mt_invoke"]
    if pid == "C13":
        paths.extend(extra_paths)
    for v in campaign_viol[:10]:
        if v.get("chart"):
            paths.append(write_replay(pid, result, v))
        else:
            paths.append(write_replay(pid, result, dict(v, chart=chart_of_case(result, v["case"]), exec="large")))
    cov["unexplained_total"] = len(viol)
    write_evidence(pid, tier, level, cov, time.time() - t0, len(viol), assumptions)
    finish(pid, paths, ["%s (%d cases in this run)" % (h[0]["what"], h[1]) for h in hits.values()])


def invoke_brackets(viol):
    wd = os.path.join(OUT, "c13")
    os.makedirs(wd, exist_ok=True)
    tr = os.path.join(wd, "bad.ndjson")
    r = sh([os.path.join(BIN, "mt_invoke"), tr, "8", str(seed()), "bad"], stdout=subprocess.PIPE, stderr=subprocess.STDOUT, text=True)
    if r.returncode != 0:
        fail_model("mt_invoke bad", r.stdout[-1000:])
    (rc, out), = run_parallel([tlc_cmd("Trace_InvokeAll.tla", "Trace_InvokeAll.cfg", os.path.join(wd, "meta"))], env={"TRACE": tr})
    p = parse_tlc(out)
    if not p["ok"] or p["error"]:
        fail_model("Trace_InvokeAll", out[-1500:])
    paths = []
    vs = [v for v in p["verdicts"] if v["property"] == "C13"]
    if vs:
        rp = os.path.join(OUT, "replay", "C13-invoke-bracket.json")
        with open(rp, "w") as f:
            json.dump({"property": "C13", "kind": "mt_invoke", "scenario": "bad", "verdicts": vs[:8]}, f, indent=1)
        paths.append(rp)
        viol.extend(vs)
    return paths


def chart_of_case(result, case):
    wd = result["workdir"]
    for fn in sorted(os.listdir(wd)):
        if fn.startswith("s") and fn.endswith(".large.ndjson"):
            with open(os.path.join(wd, fn)) as f:
                for line in f:
                    if line.startswith('{"k":"reset"') and '"case":%d,' % case in line:
                        return json.loads(line)["chart"]
    return 0
