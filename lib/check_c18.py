"""C18: the combinational micro-step logic emitted by ChartToVHDL computes the next configuration the SCXML
step algorithm (under the transpilers' conflict relation) defines -- for every legal configuration, every
situation (spontaneous step / event / spontaneous step with an event pending) and every valuation of the
condition inputs.  The equations are parsed from the emitted text and evaluated by TLC (spec/VhdlStep.tla)."""
import collections, json, os, shutil, time
from vlib import *
import vhdl, findings


def run(pid, tier):
    t0 = time.time()
    rd = os.path.join(OUT, "replay")
    os.makedirs(rd, exist_ok=True)
    for fn in os.listdir(rd):
        if fn.startswith(pid + "-"):
            os.remove(os.path.join(rd, fn))
    r = vhdl.cached_vhdl(tier)
    if r["failures"]:
        print(json.dumps(r["failures"][0])[-3000:])
        print("MODEL/HARNESS FAILURE: VHDL equation checking")
        sys.exit(2)
    known = [k for k in load_known() if k["property"] == pid]
    with open(os.path.join(r["workdir"], "charts.ndjson")) as f:
        charts = [json.loads(l) for l in f]
    viol, hits = [], collections.OrderedDict()
    for v in r["verdicts"]:
        k = findings.match(known, v, charts[v["chart"] - 1], {"class": v.get("class", "unexplained")})
        if k:
            hits.setdefault(k["id"], [k, 0])[1] += 1
        else:
            viol.append(v)
    for cid, line in r["transform_failed"].items():
        viol.append({"property": pid, "chart": int(cid), "why": "transform-failed", "got": line})
    paths = []
    seen = set()
    for v in viol:
        if v["chart"] in seen or len(paths) >= 10:
            continue
        seen.add(v["chart"])
        p = os.path.join(rd, "%s-chart%d.json" % (pid, v["chart"]))
        rec = {"property": pid, "kind": "vhdl", "chart": charts[v["chart"] - 1], "verdict": v,
               "all_verdicts_of_chart": [x for x in viol if x["chart"] == v["chart"]][:20]}
        vp = os.path.join(r["workdir"], "vhdl", "m%d.vhdl" % v["chart"])
        if os.path.exists(vp):
            with open(vp, errors="replace") as f:
                rec["vhdl"] = f.read()
        with open(p, "w") as f:
            json.dump(rec, f)
        paths.append(p)
    cov = {"evaluations": r["cases"], "distinct_nontrivial": r["configurations"],
           "samples": [{"chart": charts[0]["id"], "tags": charts[0]["tags"], "states": len(charts[0]["states"]), "transitions": len(charts[0]["trans"])}],
           "programs": r["programs"], "configurations": r["configurations"], "inputs": r["cases"], "charts": r["charts"],
           "charts_judged": r["charts_judged"], "timing": {k: r[k] for k in ("t_transform", "t_judge")},
           "unexplained_total": len(viol),
           "explanation": "programs = documents transpiled to VHDL whose equations were parsed; configurations = legal configurations enumerated by TLC over all of them; inputs = (configuration, situation, condition valuation) triples for which TLC evaluated the emitted equations and the specification's step"}
    write_evidence(pid, tier, "model_checking", cov, time.time() - t0, len(viol),
                   ["the equations are read from the emitted text by a parser for the subset of VHDL the generator emits (and/or/not over signals and constants); the sequential processes (event FIFO, registers, spontaneous_en bookkeeping) are not part of the property and are not modelled",
                    "event signals are matched to event names by the alphanumeric part of the name (escapeMacro); two names that differ only in special characters would be reported as ambiguous",
                    "the reference is ScxmlAlgo under Variants = {static}, the conflict relation the property names",
                    "charts are exhaustive up to the bound of the E families and sampled beyond; at most 4 condition inputs per chart"])
    finish(pid, paths, ["%s (%d cases in this run)" % (h[0]["what"], h[1]) for h in hits.values()])
