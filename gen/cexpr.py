"""C rendering of the fragment's expressions for the generated-C scaffold: every expression text
that can reach a callback of the emitted machine, paired with a C function computing it.
Constructed from the abstract chart -- the scaffold never parses expression text."""
from chart import render_iexpr, render_bexpr, TRUE


def c_iexpr(e, vidx):
    k = e["k"]
    if k == "lit":
        return "%dL" % e["v"]
    if k == "var":
        return "RD(%d)" % vidx[e["n"]] if e["n"] in vidx else "(EVAL_ERR = 1, 0L)"
    if k == "bin":
        return "(%s %s %s)" % (c_iexpr(e["a"], vidx), e["o"], c_iexpr(e["b"], vidx))
    if k == "ierr":
        return None
    raise ValueError(k)


def c_bexpr(e, vidx, idof):
    k = e["k"]
    if k == "true":
        return "1L"
    if k == "false":
        return "0L"
    if k == "cmp":
        return "(long)(%s %s %s)" % (c_iexpr(e["a"], vidx), e["o"], c_iexpr(e["b"], vidx))
    if k in ("and", "or"):
        return "(long)(%s %s %s)" % (c_bexpr(e["a"], vidx, idof), "&&" if k == "and" else "||", c_bexpr(e["b"], vidx, idof))
    if k == "not":
        return "(long)(!%s)" % c_bexpr(e["a"], vidx, idof)
    if k == "in":
        return '(long)IN("%s")' % idof(e["s"])
    if k == "berr":
        return None
    raise ValueError(k)


def collect(chart, dm):
    """(text, kind, ccode) for every expression of the chart as rendered for datamodel dm"""
    v = chart.to_value()
    vidx = {n: i for i, n in enumerate(chart.vars)}
    idof = lambda s: "s%d" % s
    out = {}

    def add_i(e):
        t = render_iexpr(e, dm)
        c = c_iexpr(e, vidx)
        out[t] = (0, c) if c is not None else (2, None)

    def add_b(e):
        t = render_bexpr(e, dm, idof)
        c = c_bexpr(e, vidx, idof)
        out[t] = (1, c) if c is not None else (2, None)

    def ops(lst):
        for op in lst:
            o = op["op"]
            if o == "log":
                add_i(op["e"])
            elif o == "assign":
                add_i(op["e"])
            elif o == "if":
                for arm in op["arms"]:
                    add_b(arm["cond"])
                    ops(arm["body"])
            elif o == "fault":
                if op["kind"] == "expr":
                    out[render_iexpr({"k": "ierr"}, dm)] = (2, None)
                elif op["kind"] == "location":
                    out["1"] = (0, "1L")
    for s in v["states"]:
        for b in s["onentry"] + s["onexit"]:
            ops(b)
        for d in s["data"]:
            add_i(d["e"])
    for t in v["trans"]:
        ops(t["content"])
        if t["cond"] != TRUE:
            add_b(t["cond"])
    return out


def exprs_header(chart, dm):
    ex = collect(chart, dm)
    lines = []
    fns = []
    for i, (text, (kind, code)) in enumerate(sorted(ex.items())):
        if kind == 2:
            fns.append("NULL")
        else:
            lines.append("static long expr_fn_%d(void) { return %s; }" % (i, code))
            fns.append("expr_fn_%d" % i)
    lines.append("static const struct expr EXPRS[] = {")
    for i, (text, (kind, code)) in enumerate(sorted(ex.items())):
        lines.append('  {"%s", %d, %s},' % (text.replace("\\", "\\\\").replace('"', '\\"'), kind, fns[i]))
    lines.append('  {"", 2, NULL}};')
    lines.append("static const int NEXPRS = %d;" % len(ex))
    lines.append("static const struct varname VARS[] = {")
    for i, n in enumerate(chart.vars):
        lines.append('  {"%s", %d},' % (n, i))
    lines.append('  {"", -1}};')
    lines.append("static const int NVARS = %d;" % len(chart.vars))
    return "\n".join(lines) + "\n"
