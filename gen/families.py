"""Chart families (DESIGN.md section 5):
   E(n, m)   bounded-exhaustive: every well-formed chart with <= n non-root state
             elements and exactly m transitions (m = 0..)
   Ec(n)     same trees, one or two transitions carrying conditions / content
   R(seed)   random beyond the bound
Event words are enumerated in words()."""
import itertools
import random
from chart import *

# ------------------------------------------------------------------ tree shapes
# a shape is a nested tuple (kind, children...) ; kind in S P F H D(deep history)


def _seqs(budget, kinds_fn, minlen):
    """all sequences of subtrees using at most `budget` nodes in total"""
    if minlen <= 0:
        yield ()
    if budget <= 0:
        return
    for first_size in range(1, budget + 1):
        for first in _trees(first_size, kinds_fn):
            for rest in _seqs(budget - first_size, kinds_fn, minlen - 1):
                yield (first,) + rest


def _trees(size, kinds_fn):
    """all trees with exactly `size` nodes whose root kind is allowed by kinds_fn"""
    for kind in kinds_fn:
        if kind in "FHD":
            if size == 1:
                yield (kind,)
        elif kind == "S":
            for kids in _seqs_exact(size - 1, "SPFHD", 0):
                # a history needs a proper sibling
                if any(k[0] in "HD" for k in kids) and not any(k[0] in "SPF" for k in kids):
                    continue
                yield ("S",) + kids
        elif kind == "P":
            for kids in _seqs_exact(size - 1, "SP", 1):
                yield ("P",) + kids


def _seqs_exact(budget, kinds_fn, minlen):
    if budget == 0:
        if minlen <= 0:
            yield ()
        return
    for first_size in range(1, budget + 1):
        for first in _trees(first_size, kinds_fn):
            for rest in _seqs_exact(budget - first_size, kinds_fn, minlen - 1):
                yield (first,) + rest


def shapes(n):
    """root shapes with exactly n non-root nodes"""
    for kids in _seqs_exact(n, "SPF", 1):
        yield ("X",) + kids


# ------------------------------------------------------------------ building Node trees
def build(shape):
    kind = shape[0]
    kids = [build(k) for k in shape[1:]]
    if kind == "X":
        return Scxml(*kids)
    if kind == "S":
        return State(*kids)
    if kind == "P":
        return Parallel(*kids)
    if kind == "F":
        return Final()
    if kind in "HD":
        n = History([], deep=(kind == "D"))
        return n
    raise ValueError(kind)


def proper(n):
    return [k for k in n.children if k.kind not in ("history", "initial")]


def walk(n):
    yield n
    for k in n.children:
        yield from walk(k)


def descendants(n):
    for k in n.children:
        yield from walk(k)


def history_defaults(h, parent):
    """legal default targets of a history state (a few representative choices)"""
    sibs = proper(parent)
    if not h.deep:
        opts = [[sibs[0]]]
        if len(sibs) > 1:
            opts.append([sibs[-1]])
        return opts
    opts = [[sibs[0]]]
    deeper = [d for s in sibs for d in descendants(s) if d.kind not in ("history", "initial")]
    if deeper:
        opts.append([deeper[-1]])
    return opts


def initial_options(n):
    """ways to say where a compound state starts: None = first child"""
    kids = proper(n)
    if n.kind not in ("state", "scxml") or not kids:
        return [None]
    opts = [None]
    for k in kids[1:]:
        opts.append(("attr", [k]))
    if n.kind == "state":       # <initial> is a child of <state> only
        opts.append(("el", [kids[0]]))
        if len(kids) > 1:
            opts.append(("el", [kids[-1]]))
    grand = [g for k in kids for g in proper(k)]
    if grand:
        opts.append(("attr", [grand[-1]]))
    return opts


def orth_pairs(root):
    """pairs of states in different regions of one parallel"""
    out = []
    for p in walk(root):
        if p.kind != "parallel":
            continue
        regs = proper(p)
        for i in range(len(regs)):
            for j in range(i + 1, len(regs)):
                for a in walk(regs[i]):
                    if a.kind in ("history", "initial"):
                        continue
                    for b in walk(regs[j]):
                        if b.kind in ("history", "initial"):
                            continue
                        out.append([a, b])
    return out


def is_desc(x, anc):
    p = x.parent_tmp
    while p is not None:
        if p is anc:
            return True
        p = p.parent_tmp
    return False


def set_parents(root):
    root.parent_tmp = None
    for n in walk(root):
        for k in n.children:
            k.parent_tmp = n


def transition_options(root, events=("e", "f", None)):
    """(source, T-args) for every transition the family allows"""
    set_parents(root)
    nodes = [n for n in walk(root)]
    sources = [n for n in nodes if n.kind in ("state", "parallel")]
    singles = [n for n in nodes if n.kind in ("state", "parallel", "final", "history")]
    pairs = orth_pairs(root)
    out = []
    for s in sources:
        for ev in events:
            tg = [[]] + [[x] for x in singles] + pairs
            for t in tg:
                out.append((s, ev, t, False))
                # type="internal": takes effect for compound sources only; on a <parallel> it is legal but the
                # transition stays external (its domain is the nearest compound ancestor)
                if t and s.kind in ("state", "parallel") and proper(s) and all(is_desc(x, s) for x in t):
                    out.append((s, ev, t, True))
    return out


def decorate(shape, hist_choice, init_choice, trans_choices, tlast=False):
    """build one chart: hist_choice: list (per history in walk order) of option index;
    init_choice: (node walk index, option index) or None; trans_choices: list of
    transition option indices"""
    root = build(shape)
    set_parents(root)
    nodes = list(walk(root))
    hi = 0
    for n in nodes:
        if n.kind == "history":
            opts = history_defaults(n, n.parent_tmp)
            n.trans[0].tgt = opts[hist_choice[hi] % len(opts)]
            hi += 1
    if init_choice is not None:
        ni, oi = init_choice
        n = nodes[ni]
        opt = initial_options(n)[oi]
        if opt is not None:
            if opt[0] == "attr":
                n.initial = opt[1]
            else:
                n.children.append(InitialEl(opt[1], content=[log("init")]))
    topts = transition_options(root)
    for ti in trans_choices:
        s, ev, tg, internal = topts[ti]
        s.trans.append(T(ev, tg, internal=internal))
    for n in nodes:
        n.tlast = tlast
    return Chart(root)


def count_histories(shape):
    return (1 if shape[0] in "HD" else 0) + sum(count_histories(k) for k in shape[1:])


def enum_E(n, m, tlast_variants=False):
    """all charts with exactly n non-root nodes and exactly m transitions.
    Yields (tag, thunk) where thunk() builds the Chart: enumeration is cheap,
    building is deferred so that samples do not pay for the whole family."""
    for shape in shapes(n):
        nh = count_histories(shape)
        probe = build(shape)
        set_parents(probe)
        nodes = list(walk(probe))
        hopts = []
        for nd in nodes:
            if nd.kind == "history":
                hopts.append(range(len(history_defaults(nd, nd.parent_tmp))))
        inits = [None]
        for i, nd in enumerate(nodes):
            for oi, o in enumerate(initial_options(nd)):
                if o is not None:
                    inits.append((i, oi))
        ntopts = len(transition_options(probe))
        for hc in itertools.product(*hopts):
            for ic in inits:
                for tc in itertools.combinations_with_replacement(range(ntopts), m):
                    for tl in ((False, True) if tlast_variants and m > 0 else (False,)):
                        yield (shape, hc, ic, tc, tl)


def build_E(desc):
    shape, hc, ic, tc, tl = desc
    c = decorate(shape, list(hc), ic, list(tc), tl)
    c.tags = ["E"]
    c.desc = repr(desc)
    return c


def count_E(n, m):
    return sum(1 for _ in enum_E(n, m))


# ------------------------------------------------------------------ P: conflict family (two regions of a parallel)
def enum_P():
    """Transitions enabled by the same event in the two regions of a <parallel>, with every combination of
    region size, position of the parallel among the children of <scxml>, sources and targets: the shapes that
    decide removeConflictingTransitions (exit sets that touch at their first / last state, nested, disjoint)."""
    for pos in ("first", "last", "middle"):
        for n1 in (1, 2):
            for n2 in (1, 2):
                for s1 in range(n1):
                    for s2 in range(n2):
                        tg1s = ["out", "self", "region", "par", None] + (["sib"] if n1 == 2 else [])
                        tg2s = ["out", "self", "region", "par", None] + (["sib"] if n2 == 2 else [])
                        for tg1 in tg1s:
                            for tg2 in tg2s:
                                for int2 in ((False, True) if tg2 in ("self", "sib") else (False,)):
                                    yield (pos, n1, n2, s1, s2, tg1, tg2, int2)


def build_P(desc):
    pos, n1, n2, s1, s2, tg1, tg2, int2 = desc
    r1k = [State(name="a%d" % i) for i in range(n1)]
    r2k = [State(name="x%d" % i) for i in range(n2)]
    r1 = State(*r1k, name="R1", initial=[r1k[s1].name])
    r2 = State(*r2k, name="R2", initial=[r2k[s2].name])
    p = Parallel(r1, r2, name="P")
    out = State(name="Out", trans=[T("back", ["P"])])
    out2 = State(name="Out2")

    def target(tg, kids, me, region):
        return {"out": ["Out"], "self": [kids[me].name], "region": [region.name], "par": ["P"], None: [],
                "sib": [kids[1 - me].name] if len(kids) == 2 else []}[tg]
    r1k[s1].trans.append(T("e", target(tg1, r1k, s1, r1)))
    # the second transition: from the atomic state, or (internal variant) from the region to its child
    if int2:
        r2.trans.append(T("e", target(tg2, r2k, s2, r2), internal=True))
    else:
        r2k[s2].trans.append(T("e", target(tg2, r2k, s2, r2)))
    kids = {"first": [p, out], "last": [out, p], "middle": [out, p, out2]}[pos]
    root = Scxml(*kids)
    root.initial = ["P"]
    c = Chart(root, tags=["P"])
    c.desc = repr(desc)
    return c


# ------------------------------------------------------------------ H: history family (record, leave, re-enter, again)
def enum_H():
    for deep in (False, True):
        for nested in (False, True):          # b is compound (deep history then records below it)
            for default in ("a", "b"):
                for par in (False, True):     # the history's parent sits in a parallel region
                    yield (deep, nested, default, par)


def build_H(desc):
    deep, nested, default, par = desc
    a = State(name="a", trans=[T("next", ["b"])])
    if nested:
        b1 = State(name="b1", trans=[T("next", ["b2"])])
        b2 = State(name="b2", trans=[T("next", ["a"])])
        b = State(b1, b2, name="b")
    else:
        b = State(name="b", trans=[T("next", ["a"])])
    h = History([default], deep=deep, name="h")
    p = State(h, a, b, name="p", trans=[T("out", ["q"])])
    q = State(name="q", trans=[T("back", ["h"])])
    if par:
        o = State(State(name="o1"), name="o")
        pr = Parallel(State(p, q, name="reg"), o, name="pr")
        root = Scxml(pr)
    else:
        root = Scxml(p, q)
    c = Chart(root, tags=["H"])
    c.desc = repr(desc)
    return c


def words_H(maxlen):
    out = [[]]
    for L in range(1, maxlen + 1):
        for w in itertools.product(("next", "out", "back"), repeat=L):
            # only words in which a "back" follows an "out" are interesting beyond length 2
            if L > 2 and not any(w[i] == "out" and "back" in w[i + 1:] for i in range(L)):
                continue
            out.append(list(w))
    return out


# ------------------------------------------------------------------ event words
def alphabet(chart):
    evs = ["e", "f"]
    used = set()
    for t in chart.trans:
        for d in t.ev:
            d2 = [x for x in d if x not in ("*", "")]
            if d2:
                used.add(".".join(d2))
    return sorted(used) + ["u"]


def words(chart, maxlen):
    al = alphabet(chart)
    out = [[]]
    for L in range(1, maxlen + 1):
        for w in itertools.product(al, repeat=L):
            out.append(list(w))
    return out


# ------------------------------------------------------------------ random charts beyond the bound
class RandomCharts:
    def __init__(self, seed):
        self.r = random.Random(seed)

    def tree(self, budget, depth, kinds):
        r = self.r
        kind = r.choice(kinds)
        if budget <= 1 or depth >= 5:
            kind = r.choice([k for k in kinds if k in "SF"] or ["S"])
            return Final() if kind == "F" else State(), 1
        if kind == "F":
            return Final(), 1
        used = 1
        kids = []
        if kind == "S":
            nk = r.choice([0, 1, 2, 2, 3])
            for _ in range(nk):
                if budget - used <= 0:
                    break
                k, u = self.tree(min(budget - used, r.randint(1, max(1, (budget - used)))), depth + 1, "SSSPF")
                kids.append(k)
                used += u
            n = State(*kids)
            if kids and any(k.kind != "final" for k in kids) and r.random() < 0.35 and budget - used > 0:
                h = History([], deep=r.random() < 0.5)
                n.children.insert(r.randint(0, len(n.children)), h)
                used += 1
            return n, used
        # parallel
        nk = r.choice([2, 2, 3])
        for _ in range(nk):
            if budget - used <= 0:
                break
            k, u = self.tree(max(1, (budget - used) // 2), depth + 1, "SSP")
            if k.kind == "final":
                k = State()
            kids.append(k)
            used += u
        if not kids:
            return State(), 1
        return Parallel(*kids), used

    def content(self, evs, vars_, depth=0):
        r = self.r
        ops = []
        for _ in range(r.choice([0, 1, 1, 2])):
            x = r.random()
            if x < 0.04 and vars_:
                ops.append(fault(r.choice(["expr", "location", "sendtype", "sendtarget", "sendtargetinvalid"])))
            elif x < 0.35:
                ops.append(raise_(r.choice(evs)))
            elif x < 0.55 and vars_:
                v = r.choice(vars_)
                ops.append(assign(v, add(var(v), lit(1))))
            elif x < 0.7 and vars_:
                v = r.choice(vars_)
                ops.append(log("v" + v, var(v)))
            elif x < 0.8:
                ops.append(send(r.choice(evs)))
            elif x < 0.84 and depth < 2 and vars_ and getattr(self, "allow_foreach", False):
                v = r.choice(vars_)
                self.used_foreach = True
                ops.append(foreach("arr1", [2, 0, 1], v, self.content(evs, vars_, depth + 1)))
            elif x < 0.95 and depth < 2 and vars_:
                v = r.choice(vars_)
                arms = [(cmp_(r.choice(["<", "==", ">="]), var(v), lit(r.randint(0, 2))), self.content(evs, vars_, depth + 1))]
                if r.random() < 0.5:
                    arms.append((TRUE, self.content(evs, vars_, depth + 1)))
                ops.append(if_(*arms))
            else:
                ops.append(log("c%d" % r.randint(0, 9)))
        return ops

    def chart(self, cid=0):
        r = self.r
        nstates = r.randint(5, 14)
        kids = []
        used = 0
        while used < nstates:
            k, u = self.tree(min(nstates - used, r.randint(2, 8)), 1, "SSSPF" if kids else "SSP")
            kids.append(k)
            used += u
        root = Scxml(*kids)
        set_parents(root)
        nodes = list(walk(root))
        nvars = r.choice([0, 1, 2, 3])
        vars_ = ["x", "y", "z"][:nvars]
        binding = "early"
        if vars_:
            root.data = [(v, lit(0)) for v in vars_]
            if r.random() < 0.25:
                binding = "late"
        # <foreach> over a constant array (the item variable is a root variable, bound from the start)
        self.allow_foreach = bool(vars_)
        self.used_foreach = False
        evs = ["e", "f", "g", "a.b"]
        # histories
        for n in nodes:
            if n.kind == "history":
                opts = history_defaults(n, n.parent_tmp)
                n.trans[0].tgt = r.choice(opts)
                if r.random() < 0.3:
                    n.trans[0].content = [log("hd")]
        # initial
        for n in nodes:
            opts = initial_options(n)
            if len(opts) > 1 and r.random() < 0.4:
                o = r.choice(opts[1:])
                if o[0] == "attr":
                    n.initial = o[1]
                else:
                    n.children.append(InitialEl(o[1], content=[log("init")]))
        # transitions
        topts = transition_options(root, events=("e", "f", "g", "a", None))
        nt = r.randint(3, 10)
        for _ in range(nt):
            s, ev, tg, internal = r.choice(topts)
            if ev is None and r.random() < 0.7:
                ev = r.choice(["e", "f", "g", "a", "*", "a.b", "e f", "done.state"])
            cond = None
            if vars_ and r.random() < 0.3:
                v = r.choice(vars_)
                cond = cmp_(r.choice(["<", "==", ">="]), var(v), lit(r.randint(0, 2)))
            elif r.random() < 0.15:
                cand = [n for n in nodes if n.kind in ("state", "parallel", "final")]
                cond = in_(r.choice(cand))
                if r.random() < 0.3:
                    cond = not_(cond) if vars_ else cond
            content = self.content(evs, vars_) if r.random() < 0.5 else []
            s.trans.append(T(ev, tg, cond=cond, internal=internal, content=content))
        # entry / exit content, multiple blocks
        for n in nodes:
            if n.kind in ("state", "parallel", "final") and r.random() < 0.3:
                n.onentry.append(self.content(evs, vars_))
                if r.random() < 0.3:
                    n.onentry.append(self.content(evs, vars_))
            if n.kind in ("state", "parallel", "final") and r.random() < 0.2:
                n.onexit.append(self.content(evs, vars_))
            n.tlast = r.random() < 0.3
        c = Chart(root, binding=binding, vars_=vars_, cid=cid, tags=["R"])
        if getattr(self, "used_foreach", False):
            c.arrays = {"arr1": [2, 0, 1]}
            c.tags.append("foreach")
            self.used_foreach = False
        return c

    def word(self, chart, maxlen=8):
        al = alphabet(chart) + ["e", "f", "g", "a.b", "a"]
        return [self.r.choice(al) for _ in range(self.r.randint(0, maxlen))]
