"""Directed charts: one per interaction named in the properties or found while
reading the code.  Regression anchors, not a substitute for the families."""
from chart import *


def d_basic():
    a = State(name="a", trans=[T("e", ["b"])])
    b = State(name="b", trans=[T("f", ["a"]), T("e", ["fin"])])
    fin = Final(name="fin")
    return Chart(Scxml(a, b, fin), tags=["basic"])


def d_targetless_nested():
    # targetless transition in a state and in its ancestor
    c1 = State(name="c1", trans=[T("e", [])])
    p = State(c1, name="p", trans=[T("e", []), T("f", [])])
    return Chart(Scxml(p), tags=["targetless"])


def d_history_active_parent():
    # transition into the history of a still-active parent, no stored value
    h = History(["p2"], name="h")
    p1 = State(name="p1", trans=[T("e", ["h"])])
    p2 = State(name="p2", trans=[T("f", ["p1"])])
    p = State(h, p1, p2, name="p")
    return Chart(Scxml(p), tags=["history", "A2"])


def d_history_shallow():
    h = History(["p1"], name="h")
    p1 = State(name="p1", trans=[T("e", ["p2"])])
    p2 = State(name="p2")
    p = State(h, p1, p2, name="p", trans=[T("out", ["q"])])
    q = State(name="q", trans=[T("back", ["h"])])
    return Chart(Scxml(p, q), tags=["history"])


def d_history_deep():
    h = History(["a1"], deep=True, name="h")
    a1 = State(name="a1", trans=[T("e", ["a2"])])
    a2 = State(name="a2")
    a = State(a1, a2, name="a")
    b = State(name="b")
    p = State(h, a, b, name="p", trans=[T("out", ["q"])])
    q = State(name="q", trans=[T("back", ["h"])])
    return Chart(Scxml(p, q), tags=["history", "deep"])


def d_parallel_three_final():
    def region(n):
        r1 = State(name="r%d1" % n, trans=[T("e%d" % n, ["r%df" % n])])
        rf = Final(name="r%df" % n)
        return State(r1, rf, name="r%d" % n)
    p = Parallel(region(1), region(2), region(3), name="p", trans=[T("done.state.p", ["fin"])])
    fin = Final(name="fin")
    return Chart(Scxml(p, fin), tags=["parallel", "done"])


def d_stale_conflict_cache():
    # {P parallel: A{a1 -e1->out, a1 -e2->a2}, B{b1 -"e1 e2"->b2}; out -back->P}
    a1 = State(name="a1", trans=[T("e1", ["out"]), T("e2", ["a2"])])
    a2 = State(name="a2")
    A = State(a1, a2, name="A")
    b1 = State(name="b1", trans=[T("e1 e2", ["b2"])])
    b2 = State(name="b2")
    B = State(b1, b2, name="B")
    P = Parallel(A, B, name="P")
    out = State(name="out", trans=[T("back", ["P"])])
    return Chart(Scxml(P, out), tags=["parallel", "conflict"])


def d_parallel_region_exit():
    # transition inside a nested compound of one region must not touch the other region
    b1 = State(name="b1", trans=[T("e", ["b2"])])
    b2 = State(name="b2")
    Bi = State(b1, b2, name="Bi")
    A = State(Bi, name="A")
    c1 = State(name="c1")
    Cc = State(c1, name="Cc")
    P = Parallel(A, Cc, name="P")
    return Chart(Scxml(P), tags=["parallel", "exitset"])


def d_internal():
    c1 = State(name="c1", trans=[T("f", ["c2"])])
    c2 = State(name="c2")
    p = State(c1, c2, name="p", trans=[T("e", ["c2"], internal=True), T("g", ["c1"])])
    return Chart(Scxml(p), tags=["internal"])


def d_raise_order():
    a = State(name="a", onentry=[[raise_("x"), raise_("y")]], trans=[T("x", ["b"]), T("y", ["c"])])
    b = State(name="b", trans=[T("y", ["c"])])
    c = State(name="c")
    return Chart(Scxml(a, b, c), tags=["raise"])


def d_data():
    a = State(name="a", trans=[T("e", ["a"], cond=cmp_("<", var("x"), lit(2)), content=[assign("x", add(var("x"), lit(1)))]),
                               T("e", ["b"])])
    b = State(name="b", onentry=[[log("x", var("x"))]])
    root = Scxml(a, b, data=[("x", lit(0))])
    return Chart(root, vars_=["x"], tags=["data"])


def d_error_block():
    a = State(name="a", onentry=[[log("a1"), fault("expr"), log("never1")], [log("a2")]],
              trans=[T("error.execution", ["b"])])
    b = State(name="b")
    return Chart(Scxml(a, b, data=[("x", lit(0))]), vars_=["x"], tags=["error"])


def d_initial_el():
    i = InitialEl(["c2"], content=[log("init")])
    c1 = State(name="c1")
    c2 = State(name="c2", trans=[T("e", ["c1"])])
    p = State(c1, c2, i, name="p")     # <initial> placed last on purpose
    return Chart(Scxml(p), tags=["initial"])


def d_nested_final_depth():
    f = Final(name="f")
    x = State(name="x", trans=[T("e", ["f"])])
    d4 = State(x, f, name="d4")
    d3 = State(d4, name="d3")
    d2 = State(d3, name="d2")
    r1 = State(d2, name="r1")
    r2f = Final(name="r2f")
    r2 = State(r2f, name="r2")
    p = Parallel(r1, r2, name="p")
    return Chart(Scxml(p), tags=["parallel", "done", "depth"])


def d_toplevel_final():
    a = State(name="a", onexit=[[log("xa")]], trans=[T("e", ["fin"])])
    fin = Final(name="fin", onexit=[[log("xfin")]])
    return Chart(Scxml(a, fin), tags=["final"])


def d_parallel_preempt():
    # an ancestor's transition selected via an earlier region, a descendant's via a later one (A4)
    a1 = State(name="a1")
    A = State(a1, name="A")
    b1 = State(name="b1", trans=[T("e", ["b2"])])
    b2 = State(name="b2")
    B = State(b1, b2, name="B")
    P = Parallel(A, B, name="P", trans=[T("e", [])])
    return Chart(Scxml(P), tags=["parallel", "A4", "targetless"])


def d_multi_target():
    a1 = State(name="a1"); a2 = State(name="a2")
    A = State(a1, a2, name="A")
    b1 = State(name="b1"); b2 = State(name="b2")
    B = State(b1, b2, name="B")
    P = Parallel(A, B, name="P")
    s = State(name="s", trans=[T("e", ["a2", "b2"])])
    return Chart(Scxml(s, P), tags=["multitarget"])


def d_late_binding():
    b = State(name="b", data=[("y", lit(5))], onentry=[[log("y", var("y")), assign("y", add(var("y"), lit(1)))]],
              trans=[T("e", ["a"])])
    a = State(name="a", trans=[T("e", ["b"])])
    return Chart(Scxml(a, b), binding="late", vars_=["y"], tags=["late"])


def d_error_in_if():
    # a failing element nested in <if>: the enclosing block is aborted, the next block runs,
    # and the monitor must still see afterExecutingContent for the <if> (C13)
    a = State(name="a", onentry=[[log("a1"), if_((cmp_("==", var("x"), lit(0)), [log("in1"), fault("expr"), log("never1")]),
                                                (TRUE, [log("never2")])), log("never3")],
                                [log("a2")]],
              trans=[T("error.execution", ["b"], content=[if_((TRUE, [fault("location"), log("never4")])), log("never5")])])
    b = State(name="b", onexit=[[fault("sendtype"), log("never6")], [log("b2")]], trans=[T("e", ["a"])])
    return Chart(Scxml(a, b, data=[("x", lit(0))]), vars_=["x"], tags=["error", "if"])


def d_error_cond():
    # a condition that cannot be evaluated: error.execution, counts as false
    a = State(name="a", trans=[T("e", ["b"], cond=berr()), T("e", ["c"]), T("error.execution", ["c"])])
    b = State(name="b")
    c = State(name="c")
    return Chart(Scxml(a, b, c, data=[("x", lit(0))]), vars_=["x"], tags=["error", "cond"])


def d_nested_final_high_index():
    # a nested <final> whose only ancestors besides <scxml> have a document order >= 8:
    # the generated C tested only the first byte of the ancestor bit array
    fillers = [State(name="f%d" % i) for i in range(6)]
    first = State(name="first", trans=[T("e", ["x"])])
    fin = Final(name="fin")
    x = State(name="x", trans=[T("e", ["fin"])])
    comp = State(x, fin, name="comp", trans=[T("done.state.comp", ["first"])])
    return Chart(Scxml(first, *fillers, comp), tags=["final", "bytes"])


ALL = [d_nested_final_high_index, d_error_in_if, d_error_cond, d_basic, d_targetless_nested, d_history_active_parent, d_history_shallow, d_history_deep,
       d_parallel_three_final, d_stale_conflict_cache, d_parallel_region_exit, d_internal,
       d_raise_order, d_data, d_error_block, d_initial_el, d_nested_final_depth, d_toplevel_final,
       d_parallel_preempt, d_multi_target, d_late_binding]

def d_event_prefix():
    # descriptors match by TOKENS: "e" matches e and e.f but not ef, "ef" does not match e
    # (the Promela and VHDL back-ends resolve descriptors statically through a character trie)
    a = State(name="a", trans=[T("ef", ["c"]), T("e", ["b"])])
    b = State(name="b", trans=[T("e.f", ["c"]), T("ef", ["a"])])
    c = State(name="c", trans=[T("e", ["b"]), T("e.f ef", ["a"])])
    return Chart(Scxml(a, b, c), tags=["names"])


def d_history_nested():
    # deep history of p with a nested shallow history in its child a: every state is recorded by exactly one
    ha = History(["a1"], name="ha")
    a1 = State(name="a1", trans=[T("e", ["a2"])])
    a21 = State(name="a21", trans=[T("e", ["a22"])])
    a22 = State(name="a22")
    a2 = State(a21, a22, name="a2")
    a = State(ha, a1, a2, name="a", trans=[T("f", ["b"])])
    b = State(name="b", trans=[T("f", ["ha"])])
    hp = History(["a"], deep=True, name="hp")
    p = State(hp, a, b, name="p", trans=[T("out", ["q"])])
    q = State(name="q", trans=[T("back", ["hp"])])
    return Chart(Scxml(p, q), tags=["history", "deep", "nested"])


ALL += [d_event_prefix, d_history_nested]

# event words worth trying per directed chart (besides the generic enumeration)
WORDS = {
    "d_event_prefix": [["ef", "e", "e.f"], ["e.f", "ef", "e"], ["e", "e.f", "ef", "e"]],
    "d_history_nested": [["e", "e", "out", "back"], ["e", "f", "f"], ["e", "e", "f", "f", "out", "back"], ["out", "back"]],
    "d_nested_final_high_index": [["e", "e", "e"]],
    "d_stale_conflict_cache": [["e1", "back", "e1", "back", "e2"]],
    "d_parallel_three_final": [["e1", "e2", "e3"], ["e3", "e1", "e2"]],
    "d_history_shallow": [["e", "out", "back"], ["out", "back"]],
    "d_history_deep": [["e", "out", "back"], ["out", "back"]],
}


def charts():
    out = []
    for f in ALL:
        c = f()
        c.name = f.__name__
        out.append(c)
    return out


def d_delayed():
    # a delayed <send> is held by the delay queue until its timer fires; it is not in the external queue before
    a = State(name="a", onentry=[[send("d", delay=20), send("now")]], trans=[T("d", ["b"]), T("now", [])])
    b = State(name="b", onentry=[[send("d2", delay=20)]], trans=[T("d2", ["c"]), T("e", ["a"])])
    c = State(name="c", trans=[T("e", ["a"])])
    return Chart(Scxml(a, b, c), tags=["delayed"])


def d_delayed_two():
    # two delayed events pending at once, one sent from a transition; the machine finishes on the second
    a = State(name="a", onentry=[[send("d1", delay=15)]], trans=[T("e", ["b"], content=[send("d2", delay=40)]), T("d1", [])])
    b = State(name="b", trans=[T("d1", []), T("d2", ["fin"])])
    fin = Final(name="fin")
    return Chart(Scxml(a, b, fin), tags=["delayed"])


def d_internal_parallel():
    # type="internal" on a transition whose source is a <parallel>: not a compound state, so the transition is
    # external -- its domain is the enclosing compound state, the parallel and its siblings' subtrees are exited
    r1a = State(name="r1a", trans=[T("f", ["r1b"])])
    r1b = State(name="r1b")
    r1 = State(r1a, r1b, name="r1")
    r2 = State(State(name="r2a"), name="r2")
    p = Parallel(r1, r2, name="p", trans=[T("e", ["r1b"], internal=True)])
    o1 = State(name="o1")
    other = State(o1, name="other", trans=[T("g", ["o1"], internal=True), T("e", ["p"])])
    top = State(p, other, name="top")
    return Chart(Scxml(top), tags=["internal", "parallel"])


ALL += [d_delayed, d_delayed_two, d_internal_parallel]
WORDS["d_delayed"] = [["e"], ["e", "e"]]
WORDS["d_delayed_two"] = [["e"], ["e", "e"]]
WORDS["d_internal_parallel"] = [["f", "e"], ["e", "e"], ["f", "e", "f"]]


def d_delayed_cancel():
    # a pending delayed event is cancelled by its sendid (long delay: the cancel always wins); a second one is not
    a = State(name="a", onentry=[[send("late", delay=400, sid="x"), send("soon", delay=30, sid="y")]],
              trans=[T("c", [], content=[cancel("x")]), T("late", ["b"]), T("soon", [])])
    b = State(name="b")
    return Chart(Scxml(a, b), tags=["delayed", "cancel"])


ALL += [d_delayed_cancel]
WORDS["d_delayed_cancel"] = [["c"], ["c", "c"], []]


def d_foreach():
    # <foreach>: item assignment per iteration, nested <if>, events raised inside the loop, and an error in the body
    # on the second iteration that ends the loop and the block
    body1 = [assign("s", add(var("s"), var("x"))), log("it", var("x")), if_((cmp_("==", var("x"), lit(8)), [raise_("mid")]))]
    body2 = [log("b", var("x")), if_((cmp_("==", var("x"), lit(8)), [fault("expr")])), log("after", var("x"))]
    a = State(name="a", onentry=[[foreach("arr1", [7, 8, 9], "x", body1), log("sum", var("s"))]],
              trans=[T("mid", ["b"]), T("e", ["b"])])
    b = State(name="b", onentry=[[foreach("arr1", [7, 8, 9], "x", body2), log("never", var("x"))], [log("next", var("x"))]],
              trans=[T("error.execution", ["c"])])
    c = State(name="c", onentry=[[log("x", var("x"))]])
    root = Scxml(a, b, c)
    root.data = [("x", lit(0)), ("s", lit(0))]
    ch = Chart(root, vars_=["x", "s"], tags=["foreach"])
    ch.arrays = {"arr1": [7, 8, 9]}
    return ch


ALL += [d_foreach]
WORDS["d_foreach"] = [["e"], []]


def d_multi_target_deep():
    # two targets in different regions of a parallel, one of them deep below a compound state whose <initial>
    # element names ANOTHER child: the explicit target wins, the <initial> transition is not taken
    f7 = Final(name="f7")
    s6 = State(f7, name="s6")
    s6b = State(name="s6b")
    s5 = State(s6, s6b, InitialEl(["s6b"], content=[log("init5")]), name="s5")
    s9 = State(name="s9")
    s4 = Parallel(s5, s9, name="s4")
    o = State(name="o", trans=[T("g", ["f7", "s9"]), T("e", ["s4"])])
    return Chart(Scxml(o, s4), tags=["multitarget", "initial"])


ALL += [d_multi_target_deep]
WORDS["d_multi_target_deep"] = [["g"], ["e"]]


def _par_hist_done(deep, first):
    # a <parallel> with a <history> child whose regions all reach a <final>: the pseudo-state is no child state
    # (getChildStates), so done.state.p is due; out/back re-enters through the history
    def region(n):
        r1 = State(name="r%d1" % n, trans=[T("go", ["r%df" % n])])
        rf = Final(name="r%df" % n)
        return State(r1, rf, name="r%d" % n)
    h = History(["r11", "r21"] if deep else ["r1", "r2"], deep=deep, name="h")
    kids = [h, region(1), region(2)] if first else [region(1), region(2), h]
    p = Parallel(*kids, name="p", trans=[T("done.state.p", ["fin"]), T("out", ["q"])])
    q = State(name="q", trans=[T("back", ["h"])])
    fin = Final(name="fin")
    return Chart(Scxml(p, q, fin), tags=["parallel", "done", "history"])


def d_parallel_history_done_deep(): return _par_hist_done(True, True)
def d_parallel_history_done_shallow(): return _par_hist_done(False, False)


ALL += [d_parallel_history_done_deep, d_parallel_history_done_shallow]
WORDS["d_parallel_history_done_deep"] = [["go"], ["out", "back", "go"]]
WORDS["d_parallel_history_done_shallow"] = [["go"], ["out", "back", "go"]]


def d_delayed_cancel_prefix():
    # sendids that are prefixes of one another: <cancel sendid="t1"/> removes t1 only, t10 still arrives
    a = State(name="a", onentry=[[send("late", delay=300, sid="t1"), send("soon", delay=40, sid="t10"), send("mid", delay=60, sid="t")]],
              trans=[T("c", [], content=[cancel("t1")]), T("late", ["b"]), T("soon", [], content=[log("soon")]), T("mid", [], content=[log("mid")])])
    b = State(name="b")
    return Chart(Scxml(a, b), tags=["delayed", "cancel"])


ALL += [d_delayed_cancel_prefix]
WORDS["d_delayed_cancel_prefix"] = [["c"], []]


def d_error_exit_nested():
    # exit handlers at termination (cancel) and in a micro-step: a failing <onexit> block ends that block only;
    # the state's next block and the ancestors' handlers still run
    c = State(name="c", onexit=[[log("c1"), fault("sendtype"), log("never1")], [log("c2")]], trans=[T("e", ["d"])])
    d = State(name="d", onexit=[[log("d1")]])
    p = State(c, d, name="p", onexit=[[log("p1"), fault("expr"), log("never2")], [log("p2")]], trans=[T("f", ["q"])])
    q = State(name="q")
    return Chart(Scxml(p, q, data=[("x", lit(0))]), vars_=["x"], tags=["error", "exit"])


ALL += [d_error_exit_nested]
WORDS["d_error_exit_nested"] = [["f"], ["e", "f"], []]


def d_multi_target_region():
    # a multi-target transition from inside one region of a <parallel> into its own and a sibling region: the
    # domain is the nearest COMPOUND ancestor of source and ALL targets (here <scxml>), whatever the target order;
    # it conflicts with the sibling region's transition on the same event
    a0 = State(name="a0", trans=[T("go", ["a"])])
    a = State(name="a")
    r1 = State(a0, a, name="r1")
    src = State(name="src", trans=[T("go", ["a", "b"]), T("og", ["b", "a"]), T("ab", ["a", "b"])])
    b = State(name="b", trans=[T("back", ["src"])])
    r2 = State(src, b, name="r2")
    p = Parallel(r1, r2, name="p", onentry=[[log("p")]], onexit=[[log("xp")]])
    return Chart(Scxml(p), tags=["multitarget", "parallel"])


ALL += [d_multi_target_region]
WORDS["d_multi_target_region"] = [["go"], ["og"], ["ab"], ["ab", "back", "og"]]
