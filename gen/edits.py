"""C19: single invalidating (or deliberately harmless) edits of a valid chart.
Each edit returns a label and mutates the chart object in place (before numbering)."""
from chart import *
import families


def ghost(idstr):
    n = Node("state")
    n.forced_id = idstr
    n.idx = 0
    return n


def candidates(c):
    """list of (label, function(chart) -> bool applied)"""
    out = []

    def first(pred):
        for n in c.states:
            if pred(n):
                return n
        return None

    def e_dangling_target(ch):
        for t in ch.trans:
            if t.kind == "normal":
                t.tgt = [ghost("nosuchstate")]
                return True
        return False

    def e_dangling_initial(ch):
        for n in ch.states:
            if n.kind in ("state", "scxml") and ch.proper_children(n):
                n.initial = [ghost("nosuchstate")]
                n.children = [k for k in n.children if k.kind != "initial"]
                return True
        return False

    def e_initial_outside(ch):
        for n in ch.states:
            if n.kind == "state" and ch.proper_children(n):
                outside = [m for m in ch.states if m.kind in ("state", "final", "parallel") and m is not n and not _is_desc(m, n) and not _is_desc(n, m)]
                if outside:
                    n.initial = [outside[0]]
                    n.children = [k for k in n.children if k.kind != "initial"]
                    return True
        return False

    def e_history_no_default(ch):
        for n in ch.states:
            if n.kind == "history":
                n.trans = []
                return True
        return False

    def e_history_two_defaults(ch):
        for n in ch.states:
            if n.kind == "history" and n.trans:
                t2 = T(None, list(n.trans[0].tgt))
                t2.kind = "history"
                n.trans.append(t2)
                return True
        return False

    def e_history_with_event(ch):
        for n in ch.states:
            if n.kind == "history" and n.trans:
                n.trans[0].ev = [["e"]]
                n.trans[0].ev_text = "e"
                return True
        return False

    def e_non_orthogonal(ch):
        for n in ch.states:
            kids = ch.proper_children(n)
            if n.kind in ("state", "scxml") and len(kids) >= 2:
                for t in ch.trans:
                    if t.kind == "normal":
                        t.tgt = [kids[0], kids[1]]
                        return True
        return False

    # three targets: two exclusive children of a compound state together with that state, in every order
    # (a descendant listed before its own ancestor, the conflicting sibling after it, ...)
    def three(perm, as_initial):
        def fn(ch):
            for n in ch.states:
                kids = ch.proper_children(n)
                if n.kind == "state" and len(kids) >= 2:
                    trio = [kids[0], n, kids[1]]
                    trio = [trio[i] for i in perm]
                    if as_initial:
                        host = n.parent
                        if host is None or host.kind not in ("state", "scxml") or any(k.kind == "initial" for k in host.children):
                            continue
                        host.initial = trio
                        return True
                    for t in ch.trans:
                        if t.kind == "normal":
                            t.tgt = trio
                            return True
            return False
        return fn
    import itertools
    threes = []
    for perm in itertools.permutations((0, 1, 2)):
        tag = "".join("kpq"[i] for i in perm)        # k = first child, p = the compound state, q = second child
        threes.append(("non-orthogonal-3-" + tag, three(perm, False)))
        threes.append(("initial-non-orthogonal-3-" + tag, three(perm, True)))

    def e_duplicate_id(ch):
        named = [n for n in ch.states if n.kind in ("state", "parallel", "final")]
        if len(named) >= 2:
            named[1].forced_id = ch.sid(named[0])
            return True
        return False

    def e_missing_id(ch):
        # NOT invalid: id is optional (Rec. 3.3.1); the state must not be referenced
        referenced = set()
        for t in ch.trans:
            for x in t.tgt:
                referenced.add(id(ch.resolve(x)))
        for n in ch.states:
            if n.initial:
                for x in n.initial:
                    referenced.add(id(ch.resolve(x)))
        for n in ch.states:
            if n.kind in ("state", "parallel", "final") and id(n) not in referenced:
                n.forced_id = ""
                return True
        return False

    def e_initial_with_event(ch):
        for n in ch.states:
            if n.kind == "initial" and n.trans:
                n.trans[0].ev = [["e"]]
                n.trans[0].ev_text = "e"
                return True
        return False

    return [("dangling-target", e_dangling_target), ("dangling-initial", e_dangling_initial),
            ("initial-outside", e_initial_outside), ("history-no-default", e_history_no_default),
            ("history-two-defaults", e_history_two_defaults), ("history-with-event", e_history_with_event),
            ("non-orthogonal-targets", e_non_orthogonal), ("duplicate-id", e_duplicate_id),
            ("missing-id", e_missing_id), ("initial-with-event", e_initial_with_event)] + threes


def _is_desc(x, anc):
    p = x.parent
    while p is not None:
        if p is anc:
            return True
        p = p.parent
    return False
