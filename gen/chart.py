"""Abstract SCXML charts: construction, document-order numbering, JSON value for
TLC (DESIGN.md Appendix A) and rendering to SCXML text for the lua, promela and
null datamodels.

Generators construct, they never parse: the TLA+ side sees `to_value()`, the
implementation sees `render()`, both derived from the same abstract object.
"""
import json
import re
from xml.sax.saxutils import quoteattr

# ---------------------------------------------------------------- expressions
def lit(v): return {"k": "lit", "v": int(v)}
def var(n): return {"k": "var", "n": n}
def bin_(o, a, b): return {"k": "bin", "o": o, "a": a, "b": b}
def add(a, b): return bin_("+", a, b)
def sub(a, b): return bin_("-", a, b)
def mul(a, b): return bin_("*", a, b)
def ierr(): return {"k": "ierr"}

TRUE = {"k": "true"}
FALSE = {"k": "false"}
def cmp_(o, a, b): return {"k": "cmp", "o": o, "a": a, "b": b}
def and_(a, b): return {"k": "and", "a": a, "b": b}
def or_(a, b): return {"k": "or", "a": a, "b": b}
def not_(a): return {"k": "not", "a": a}
def in_(state): return {"k": "in", "s": state}     # state: node object, resolved at finalize
def berr(): return {"k": "berr"}


def render_iexpr(e, dm):
    k = e["k"]
    if k == "lit":
        return str(e["v"])
    if k == "var":
        return e["n"]
    if k == "bin":
        return "(%s %s %s)" % (render_iexpr(e["a"], dm), e["o"], render_iexpr(e["b"], dm))
    if k == "ierr":
        # an expression every datamodel rejects at evaluation time
        return {"lua": "undeclared_fn_zz()", "promela": "undeclared_zz[3]"}.get(dm, "%%%")
    raise ValueError(k)


def render_bexpr(e, dm, idof):
    k = e["k"]
    if k == "true":
        return {"lua": "true", "promela": "true", "null": "In('%s')" % idof(1)}[dm]
    if k == "false":
        return {"lua": "false", "promela": "false"}[dm]
    if k == "cmp":
        o = e["o"]
        if dm == "lua" and o == "!=":
            o = "~="
        return "(%s %s %s)" % (render_iexpr(e["a"], dm), o, render_iexpr(e["b"], dm))
    if k in ("and", "or"):
        o = {"lua": {"and": "and", "or": "or"}, "promela": {"and": "&&", "or": "||"}}[dm][k]
        return "(%s %s %s)" % (render_bexpr(e["a"], dm, idof), o, render_bexpr(e["b"], dm, idof))
    if k == "not":
        o = {"lua": "not ", "promela": "!"}[dm]
        return "(%s%s)" % (o, render_bexpr(e["a"], dm, idof))
    if k == "in":
        sid = idof(e["s"])
        return "config[%s]" % sid if dm == "promela" else "In('%s')" % sid
    if k == "berr":
        return {"lua": "undeclared_fn_zz()", "promela": "undeclared_zz[3]", "null": "In("}[dm]
    raise ValueError(k)


def bexpr_uses_only_in(e):
    k = e["k"]
    if k in ("in", "true"):
        return True
    return False


# ---------------------------------------------------------------- executable content
def log(label, e=None): return {"op": "log", "label": label, "e": e if e is not None else lit(0)}
def raise_(ev): return {"op": "raise", "ev": ev.split(".") if isinstance(ev, str) else list(ev)}
def send(ev, delay=0, sid=""):
    """<send> to the session's own external queue; delay in ms (0: immediately); sid: sendid ("" = none)"""
    return {"op": "send", "ev": ev.split(".") if isinstance(ev, str) else list(ev), "delay": int(delay), "sid": sid}


def cancel(sid):
    """<cancel sendid=...>: every pending delayed event sent with that id is dropped"""
    return {"op": "cancel", "sid": sid}
def assign(v, e): return {"op": "assign", "var": v, "e": e}
def if_(*arms): return {"op": "if", "arms": [{"cond": c, "body": list(b)} for c, b in arms]}
def fault(kind): return {"op": "fault", "kind": kind}


def foreach(array, vals, item, body):
    """<foreach array=.. item=..>: the array is a constant declared at <scxml> (Chart.arrays), its elements are carried
    in the op so that the specification needs no look-up; item is a declared integer variable; no index (its base is
    the datamodel's business: 1 in Lua, 0 in Promela)"""
    return {"op": "foreach", "array": array, "vals": [int(x) for x in vals], "item": item, "body": list(body)}


def ops_need_dm(ops):
    for op in ops:
        o = op["op"]
        if o in ("assign",):
            return True
        if o == "log" and op["e"] != lit(0):
            return True
        if o == "if":
            for arm in op["arms"]:
                if not bexpr_uses_only_in(arm["cond"]) or ops_need_dm(arm["body"]):
                    return True
        if o == "fault" and op["kind"] not in ("sendtype", "sendtarget"):
            return True
        if o == "foreach":
            return True
    return False


# ---------------------------------------------------------------- structure
class T:
    """transition"""
    def __init__(self, ev=None, tgt=(), cond=None, internal=False, content=()):
        # ev: None (eventless) or descriptor string "a b.c *" or list of token lists
        if ev is None:
            self.ev = []
        elif isinstance(ev, str):
            self.ev = [d.split(".") for d in ev.split()]
        else:
            self.ev = [list(d) for d in ev]
        self.ev_text = ev if isinstance(ev, str) else None
        self.tgt = list(tgt) if not isinstance(tgt, Node) else [tgt]
        self.cond = cond
        self.internal = internal
        self.content = list(content)
        self.kind = "normal"
        self.src = None
        self.idx = None


class Node:
    def __init__(self, kind, children=(), trans=(), onentry=(), onexit=(), initial=None,
                 deep=False, data=(), name=None, tlast=False, autolog=True):
        self.kind = kind                # scxml state parallel final history initial
        self.children = list(children)  # states, histories and <initial> in text order
        self.trans = list(trans)
        self.onentry = [list(b) for b in onentry]   # list of blocks
        self.onexit = [list(b) for b in onexit]
        self.initial = initial          # None | list of nodes (attribute)
        self.deep = deep
        self.data = list(data)          # [(var, iexpr)]
        self.name = name                # symbolic name for references before numbering
        self.tlast = tlast              # render transitions after the children
        self.parent = None
        self.idx = None
        self.autolog = autolog
        self.forced_id = None           # C19: a deliberately wrong / missing / duplicate id ("" = no id attribute)

    # convenience for builders
    def add(self, *kids):
        self.children.extend(kids)
        return self


def State(*children, **kw): return Node("state", children, **kw)
def Parallel(*children, **kw): return Node("parallel", children, **kw)
def Final(**kw): return Node("final", (), **kw)
def History(default, deep=False, content=(), **kw):
    n = Node("history", (), deep=deep, **kw)
    t = T(None, default, content=content)
    t.kind = "history"
    n.trans = [t]
    return n
def InitialEl(targets, content=(), **kw):
    n = Node("initial", (), **kw)
    t = T(None, targets, content=content)
    t.kind = "initial"
    n.trans = [t]
    return n


class Chart:
    def __init__(self, root, binding="early", vars_=(), cid=0, tags=()):
        assert root.kind == "scxml"
        self.root = root
        self.binding = binding
        self.vars = list(vars_)   # variable names; <data> placement via Node.data
        self.cid = cid
        self.tags = list(tags)
        self.arrays = {}          # name -> list of ints: constant arrays declared at <scxml>, iterated by <foreach>
        self.states = []
        self.trans = []
        self._number()

    # --- document order numbering: follows exactly the order render() emits tags
    def _walk(self, n, parent):
        n.parent = parent
        self.states.append(n)
        n.idx = len(self.states)
        kids_first = n.tlast
        if not kids_first:
            for t in n.trans:
                self._reg_trans(t, n)
        for k in n.children:
            self._walk(k, n)
        if kids_first:
            for t in n.trans:
                self._reg_trans(t, n)

    def _reg_trans(self, t, n):
        t.src = n
        self.trans.append(t)
        t.idx = len(self.trans)

    def _number(self):
        self.states, self.trans = [], []
        self._walk(self.root, None)
        self.byname = {n.name: n for n in self.states if n.name}

    def resolve(self, ref):
        if isinstance(ref, Node):
            return ref
        return self.byname[ref]

    def sid(self, n):
        if n.forced_id is not None:
            return n.forced_id
        return "s%d" % n.idx

    # --- derived structure
    def proper_children(self, n):
        return [k for k in n.children if k.kind not in ("history", "initial")]

    def init_of(self, n):
        """targets of the default entry of a compound state / <scxml>, and the
        index of the <initial> element's transition (0 if none)"""
        kids = self.proper_children(n)
        if n.kind not in ("state", "scxml") or not kids:
            return [], 0
        if n.initial is not None:
            return [self.resolve(x).idx for x in n.initial], 0
        for k in n.children:
            if k.kind == "initial":
                t = k.trans[0]
                return [self.resolve(x).idx for x in t.tgt], t.idx
        return [kids[0].idx], 0

    def _fix_expr(self, e):
        if isinstance(e, dict):
            if e.get("k") == "in":
                s = e["s"]
                return {"k": "in", "s": s if isinstance(s, int) else self.resolve(s).idx}
            return {k: self._fix_expr(v) for k, v in e.items()}
        if isinstance(e, list):
            return [self._fix_expr(x) for x in e]
        return e

    def all_ops(self, n):
        """effective blocks incl. the automatic order-revealing logs"""
        en = [list(b) for b in n.onentry]
        ex = [list(b) for b in n.onexit]
        if n.autolog and n.kind not in ("history", "initial", "scxml"):
            en = [[log("en%d" % n.idx)]] + en
            ex = [[log("ex%d" % n.idx)]] + ex
        return en, ex

    def trans_content(self, t):
        c = list(t.content)
        if t.src.autolog:
            c = [log("t%d" % t.idx)] + c
        return c

    def to_value(self):
        states = []
        alldata = []
        for n in self.states:
            init, initT = self.init_of(n)
            en, ex = self.all_ops(n)
            data = [{"var": v, "e": self._fix_expr(e)} for v, e in n.data]
            alldata.extend(data)
            states.append({
                "id": self.sid(n), "kind": n.kind,
                "parent": n.parent.idx if n.parent else 0,
                "deep": bool(n.deep), "init": init, "initT": initT,
                "onentry": self._fix_expr(en), "onexit": self._fix_expr(ex),
                "data": data,
            })
        trans = []
        for t in self.trans:
            trans.append({
                "id": "t%d" % t.idx, "src": t.src.idx, "kind": t.kind,
                "ev": t.ev,
                "cond": self._fix_expr(t.cond) if t.cond is not None else TRUE,
                "tgt": [self.resolve(x).idx for x in t.tgt],
                "internal": bool(t.internal),
                "content": self._fix_expr(self.trans_content(t)),
            })
        return {"id": self.cid, "binding": self.binding, "vars": self.vars,
                "states": states, "trans": trans, "alldata": alldata,
                "arrays": [{"n": k, "v": list(v)} for k, v in sorted(self.arrays.items())],
                "tags": self.tags}

    def to_raw_value(self):
        """the document as written, references by id string (C19): ids may be missing, duplicated,
        targets may name nothing -- structure (parent links) is by index, it is well-formed XML"""
        states = []
        for n in self.states:
            states.append({"id": self.sid(n) if n.kind != "initial" else "", "kind": n.kind,
                           "parent": n.parent.idx if n.parent else 0, "deep": bool(n.deep),
                           "initattr": [self.sid(self.resolve(x)) for x in n.initial] if n.initial is not None else []})
        trans = []
        for t in self.trans:
            trans.append({"src": t.src.idx, "kind": t.kind, "ev": t.ev,
                          "hascond": t.cond is not None,
                          "tgt": [self.sid(self.resolve(x)) for x in t.tgt]})
        return {"id": self.cid, "states": states, "trans": trans, "tags": self.tags}

    def max_delay(self):
        """largest delay (ms) of a <send> in the chart, 0 if none is delayed"""
        return max([int(x) for x in re.findall(r'"delay": (\d+)', json.dumps(self.to_value()))] + [0])

    # --- which datamodels can express this chart
    def needs_dm(self):
        if self.vars:
            return True
        for n in self.states:
            for b in n.onentry + n.onexit:
                if ops_need_dm(b):
                    return True
        for t in self.trans:
            if ops_need_dm(t.content):
                return True
            if t.cond is not None and not bexpr_uses_only_in(t.cond):
                return True
        return False

    def events(self):
        """event names (token tuples) that occur in descriptors, raises and sends"""
        names = set()
        for t in self.trans:
            for d in t.ev:
                d2 = [x for x in d if x not in ("*", "")]
                if d2:
                    names.add(tuple(d2))
        return sorted(names)

    # --- rendering
    def render(self, dm):
        out = ['<?xml version="1.0" encoding="UTF-8"?>']
        self._dm = dm
        self._render_node(self.root, out, 0)
        return "\n".join(out) + "\n"

    def _idof(self, ref):
        if isinstance(ref, int):
            return "s%d" % ref
        return self.sid(self.resolve(ref))

    def _render_ops(self, ops, out, ind):
        dm = self._dm
        p = "  " * ind
        for op in ops:
            o = op["op"]
            if o == "log":
                if dm == "null":
                    out.append('%s<log label=%s/>' % (p, quoteattr(op["label"])))
                else:
                    out.append('%s<log label=%s expr=%s/>' % (p, quoteattr(op["label"]),
                                                              quoteattr(render_iexpr(op["e"], dm))))
            elif o == "raise":
                out.append('%s<raise event=%s/>' % (p, quoteattr(".".join(op["ev"]))))
            elif o == "send":
                idattr = ' id=%s' % quoteattr(op["sid"]) if op.get("sid") else ""
                if op.get("delay", 0):
                    out.append('%s<send event=%s delay="%dms"%s/>' % (p, quoteattr(".".join(op["ev"])), op["delay"], idattr))
                else:
                    out.append('%s<send event=%s%s/>' % (p, quoteattr(".".join(op["ev"])), idattr))
            elif o == "cancel":
                out.append('%s<cancel sendid=%s/>' % (p, quoteattr(op["sid"])))
            elif o == "foreach":
                out.append('%s<foreach array="%s" item="%s">' % (p, op["array"], op["item"]))
                self._render_ops(op["body"], out, ind + 1)
                out.append('%s</foreach>' % p)
            elif o == "assign":
                out.append('%s<assign location=%s expr=%s/>' % (p, quoteattr(op["var"]),
                                                                 quoteattr(render_iexpr(op["e"], dm))))
            elif o == "if":
                arms = op["arms"]
                for i, arm in enumerate(arms):
                    c = self._fix_expr(arm["cond"])
                    if i == 0:
                        out.append('%s<if cond=%s>' % (p, quoteattr(render_bexpr(c, dm, self._idof))))
                    elif c == TRUE and i == len(arms) - 1:
                        out.append('%s<else/>' % p)
                    else:
                        out.append('%s<elseif cond=%s/>' % (p, quoteattr(render_bexpr(c, dm, self._idof))))
                    self._render_ops(arm["body"], out, ind + 1)
                out.append('%s</if>' % p)
            elif o == "fault":
                k = op["kind"]
                if k == "location":
                    out.append('%s<assign location="undeclared_zz.a.b" expr="1"/>' % p)
                elif k == "expr":
                    out.append('%s<log label="never" expr=%s/>' % (p, quoteattr(render_iexpr(ierr(), dm))))
                elif k == "sendtype":
                    out.append('%s<send event="never" type="http://no.such/type#zz"/>' % p)
                elif k == "sendtarget":      # a session that does not exist: error.communication
                    out.append('%s<send event="never" target="#_scxml_nosuchsession_zz"/>' % p)
                elif k == "sendtargetinvalid":   # not a target the SCXML i/o processor understands: error.execution
                    out.append('%s<send event="never" target="!no target!"/>' % p)
                elif k == "div0":
                    out.append('%s<assign location=%s expr="7 / 0"/>' % (p, quoteattr(op.get("var", "x"))))
                elif k == "mod0":
                    out.append('%s<assign location=%s expr="7 %% 0"/>' % (p, quoteattr(op.get("var", "x"))))
                elif k == "neg":
                    out.append('%s<assign location=%s expr="-(1)"/>' % (p, quoteattr(op.get("var", "x"))))
                elif k == "cancelnoid":
                    out.append('%s<cancel/>' % p)
                else:
                    raise ValueError(k)
            else:
                raise ValueError(o)

    def _render_trans(self, t, out, ind):
        p = "  " * ind
        a = ""
        if t.ev:
            a += " event=%s" % quoteattr(t.ev_text if t.ev_text is not None
                                         else " ".join(".".join(d) for d in t.ev))
        if t.cond is not None:
            a += " cond=%s" % quoteattr(render_bexpr(self._fix_expr(t.cond), self._dm, self._idof))
        if t.tgt:
            a += " target=%s" % quoteattr(" ".join(self.sid(self.resolve(x)) for x in t.tgt))
        if t.internal:
            a += ' type="internal"'
        c = self.trans_content(t)
        if c:
            out.append("%s<transition%s>" % (p, a))
            self._render_ops(self._fix_expr(c), out, ind + 1)
            out.append("%s</transition>" % p)
        else:
            out.append("%s<transition%s/>" % (p, a))

    def _render_node(self, n, out, ind):
        p = "  " * ind
        dm = self._dm
        if n.kind == "scxml":
            a = ' xmlns="http://www.w3.org/2005/07/scxml" version="1.0" datamodel="%s" name="s1"' % dm
            if self.binding == "late":
                a += ' binding="late"'
        else:
            a = ' id="%s"' % self.sid(n) if (n.kind != "initial" and self.sid(n) != "") else ""
        if n.kind == "history":
            a += ' type="%s"' % ("deep" if n.deep else "shallow")
        if n.initial is not None:
            a += ' initial="%s"' % " ".join(self.sid(self.resolve(x)) for x in n.initial)
        out.append("%s<%s%s>" % (p, n.kind, a))
        arrays = self.arrays if (n.kind == "scxml" and dm != "null") else {}
        if n.data or arrays:
            out.append("%s  <datamodel>" % p)
            for an, av in sorted(arrays.items()):
                if dm == "promela":
                    out.append('%s    <data id="%s" type="int[%d]">[%s]</data>' % (p, an, len(av), ",".join(str(x) for x in av)))
                else:
                    out.append('%s    <data id="%s" expr="{%s}"/>' % (p, an, ",".join(str(x) for x in av)))
            for v, e in n.data:
                e = self._fix_expr(e)
                if dm == "promela":
                    out.append('%s    <data id="%s" type="int" expr=%s/>' % (p, v, quoteattr(render_iexpr(e, dm))))
                else:
                    out.append('%s    <data id="%s" expr=%s/>' % (p, v, quoteattr(render_iexpr(e, dm))))
            out.append("%s  </datamodel>" % p)
        en, ex = self.all_ops(n)
        for b in en:
            out.append("%s  <onentry>" % p)
            self._render_ops(self._fix_expr(b), out, ind + 2)
            out.append("%s  </onentry>" % p)
        for b in ex:
            out.append("%s  <onexit>" % p)
            self._render_ops(self._fix_expr(b), out, ind + 2)
            out.append("%s  </onexit>" % p)
        if not n.tlast:
            for t in n.trans:
                self._render_trans(t, out, ind + 1)
        for k in n.children:
            self._render_node(k, out, ind + 1)
        if n.tlast:
            for t in n.trans:
                self._render_trans(t, out, ind + 1)
        out.append("%s</%s>" % (p, n.kind))


def Scxml(*children, **kw):
    return Node("scxml", children, **kw)


def dumps(v):
    return json.dumps(v, separators=(",", ":"))
