"""Rebuild an abstract Chart from its JSON value (used by `bin/check replay`: the replay
file stores the abstract chart, the SCXML text is rendered again from it)."""
from chart import *


def chart_from_value(v):
    nodes = []
    for s in v["states"]:
        n = Node(s["kind"], deep=s.get("deep", False), autolog=False)
        n.onentry = [list(b) for b in s["onentry"]]
        n.onexit = [list(b) for b in s["onexit"]]
        n.data = [(d["var"], d["e"]) for d in s["data"]]
        nodes.append(n)
    for i, s in enumerate(v["states"]):
        if s["parent"]:
            nodes[s["parent"] - 1].children.append(nodes[i])
    # transitions in document order; position relative to the children is recovered from the ids:
    # a transition whose index is larger than that of the first transition of a later child is "last"
    by_src = {}
    for t in v["trans"]:
        by_src.setdefault(t["src"], []).append(t)
    for src, ts in by_src.items():
        n = nodes[src - 1]
        for t in ts:
            tt = T(None, [], internal=t["internal"], content=t["content"])
            tt.ev = t["ev"]
            tt.ev_text = None
            tt.kind = t["kind"]
            tt.cond = None if t["cond"] == TRUE else t["cond"]
            tt.tgt = [nodes[x - 1] for x in t["tgt"]]
            tt.want_idx = int(t["id"][1:])
            n.trans.append(tt)
    # initial attribute
    for i, s in enumerate(v["states"]):
        n = nodes[i]
        if s["kind"] in ("state", "scxml") and s["init"] and s["initT"] == 0:
            kids = [k for k in n.children if k.kind not in ("history", "initial")]
            if not (len(s["init"]) == 1 and kids and nodes[s["init"][0] - 1] is kids[0]):
                n.initial = [nodes[x - 1] for x in s["init"]]
    # decide tlast per node so that the transition numbering is reproduced
    c = Chart(nodes[0], binding=v["binding"], vars_=v["vars"], cid=v["id"], tags=v.get("tags", []))
    c.arrays = {a["n"]: list(a["v"]) for a in v.get("arrays", [])}
    def numbering_ok():
        return all(t.idx == t.want_idx for t in c.trans)
    if not numbering_ok():
        for n in nodes:
            if n.trans and n.children:
                n.tlast = True
                c._number()
                if not all(t.idx == t.want_idx for t in n.trans):
                    n.tlast = False
                    c._number()
    if not numbering_ok():
        raise ValueError("cannot reproduce the transition numbering of the recorded chart")
    return c
